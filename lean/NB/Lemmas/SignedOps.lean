/- the nine signed bit routines against Mathlib's Int.land / Int.lor / Int.xor -/
import NB.Lemmas.Streams
import Mathlib.Tactic.LinearCombination
import NB.Lemmas.BitsInt
namespace NB.C07

theorem bitandNegNeg_spec (a b : List Nat) (ha : Canon a) (hb : Canon b) (hane : a ≠ []) (hbne : b ≠ []) :
    ∃ out, bitandNegNeg a b = .ok out ∧ DigitsOk out ∧
      -(val out : Int) = Int.land (-(val a : Int)) (-(val b : Int)) := by
  have hA := canon_val_pos ha hane
  have hB := canon_val_pos hb hbne
  obtain ⟨z1, ⟨sa, hsa, za⟩, ⟨sb, hsb, zb⟩, zl, zok, zca, zcb, zcr⟩ :=
    zip_int intOp_and true true true a b 1 1 1 ha.1 hb.1 (by decide) (by decide) (by decide)
  rw [I_neg_one, I_neg_one, I_neg_one] at z1
  unfold bitandNegNeg
  simp only
  generalize zipLoop (fun x1 x2 => x1 &&& x2) true true true 1 1 1 a b = z at *
  obtain ⟨o1, ca', cb', cr'⟩ := z
  simp only at *
  rcases Nat.lt_trichotomy a.length b.length with hlt | heq | hgt
  · -- b is longer
    have hk : min a.length b.length = a.length := Nat.min_eq_left (by omega)
    rw [hk] at z1 za zb zl
    rw [val_drop_nil a (Nat.le_refl _)] at z1 za
    have hca0 : ca' = 0 := carry_zero_of_pos hA zca za
    subst hca0
    rw [I_neg_zero_zero, int_neg_one_land] at z1
    obtain ⟨t1, ⟨s2, hs2, t2⟩, tl, tok, tci, tco⟩ :=
      tail_int true false true (b.drop a.length) cb' cr' (hb.1.drop _) zcb zcr
    rw [F_false, F_false] at t1
    generalize tailLoop true false true cb' cr' (b.drop a.length) = t at *
    obtain ⟨o2, cb'', cr''⟩ := t
    simp only at *
    have hcb0 : cb'' = 0 := carry_zero_of_pos2 hB tci zb t2
    subst hcb0
    rw [I_neg_zero_zero, I_neg_of_neg_one] at t1
    have hcmp : compare a.length b.length = .lt := Nat.compare_eq_lt.2 hlt
    obtain ⟨f1, f2⟩ := fin_val (zok.append tok) tco
    refine ⟨if cr'' ≠ 0 then (o1 ++ o2) ++ [1] else o1 ++ o2, by simp [hcmp, hlt], f2, ?_⟩
    rw [t1] at z1
    rw [f1, val_append, zl, List.length_append, zl, tl]
    push_cast at z1 ⊢
    linear_combination z1
  · -- equal lengths
    have hk : min a.length b.length = a.length := Nat.min_eq_left (by omega)
    rw [hk] at z1 za zb zl
    rw [val_drop_nil a (Nat.le_refl _), val_drop_nil b (by omega)] at z1
    rw [val_drop_nil a (Nat.le_refl _)] at za
    rw [val_drop_nil b (by omega)] at zb
    have hca0 : ca' = 0 := carry_zero_of_pos hA zca za
    have hcb0 : cb' = 0 := carry_zero_of_pos hB zcb zb
    subst hca0 hcb0
    rw [I_neg_zero_zero, int_neg_one_land, I_neg_of_neg_one] at z1
    have hcmp : compare a.length b.length = .eq := Nat.compare_eq_eq.2 heq
    obtain ⟨f1, f2⟩ := fin_val zok zcr
    refine ⟨if cr' ≠ 0 then o1 ++ [1] else o1, by simp [heq], f2, ?_⟩
    rw [f1, zl]
    push_cast at z1 ⊢
    linear_combination z1
  · -- a is longer
    have hk : min a.length b.length = b.length := Nat.min_eq_right (by omega)
    rw [hk] at z1 za zb zl
    rw [val_drop_nil b (Nat.le_refl _)] at z1 zb
    have hcb0 : cb' = 0 := carry_zero_of_pos hB zcb zb
    subst hcb0
    rw [I_neg_zero_zero, int_land_neg_one] at z1
    obtain ⟨t1, ⟨s2, hs2, t2⟩, tl, tok, tci, tco⟩ :=
      tail_int true false true (a.drop b.length) ca' cr' (ha.1.drop _) zca zcr
    rw [F_false, F_false] at t1
    generalize tailLoop true false true ca' cr' (a.drop b.length) = t at *
    obtain ⟨o2, ca'', cr''⟩ := t
    simp only at *
    have hca0 : ca'' = 0 := carry_zero_of_pos2 hA tci za t2
    subst hca0
    rw [I_neg_zero_zero, I_neg_of_neg_one] at t1
    have hcmp : compare a.length b.length = .gt := Nat.compare_eq_gt.2 hgt
    obtain ⟨f1, f2⟩ := fin_val (zok.append tok) tco
    refine ⟨if cr'' ≠ 0 then (o1 ++ o2) ++ [1] else o1 ++ o2, by simp [hcmp, hgt], f2, ?_⟩
    rw [t1] at z1
    rw [f1, val_append, zl, List.length_append, zl, tl]
    push_cast at z1 ⊢
    linear_combination z1

theorem bitandPosNeg_spec (a b : List Nat) (ha : Canon a) (hb : Canon b) (hbne : b ≠ []) :
    ∃ out, bitandPosNeg a b = .ok out ∧ DigitsOk out ∧
      (val out : Int) = Int.land (val a : Int) (-(val b : Int)) := by
  have hB := canon_val_pos hb hbne
  obtain ⟨z1, ⟨sa, hsa, za⟩, ⟨sb, hsb, zb⟩, zl, zok, zca, zcb, zcr⟩ :=
    zip_int intOp_and false true false a b 0 1 0 ha.1 hb.1 (by decide) (by decide) (by decide)
  rw [I_neg_one, I_pos, I_pos, I_pos, I_pos] at z1
  unfold bitandPosNeg
  simp only
  generalize zipLoop (fun x1 x2 => x1 &&& x2) false true false 0 1 0 a b = z at *
  obtain ⟨o1, ca', cb', cr'⟩ := z
  simp only at *
  by_cases hle : a.length ≤ b.length
  · -- the extra digits of b are ignored
    have hk : min a.length b.length = a.length := Nat.min_eq_left hle
    rw [hk] at z1 za zb zl
    rw [val_drop_nil a (Nat.le_refl _), int_zero_land] at z1
    have hass : b.length > a.length ∨ cb' = 0 := by
      by_cases h : b.length > a.length
      · exact Or.inl h
      · right
        rw [val_drop_nil b (by omega)] at zb
        exact carry_zero_of_pos hB zcb zb
    refine ⟨o1 ++ a.drop b.length, by simp [hass], zok.append (ha.1.drop _), ?_⟩
    rw [List.drop_eq_nil_of_le hle, List.append_nil]
    push_cast at z1 ⊢
    linear_combination -z1
  · have hgt : b.length < a.length := by omega
    have hk : min a.length b.length = b.length := Nat.min_eq_right (by omega)
    rw [hk] at z1 za zb zl
    rw [val_drop_nil b (Nat.le_refl _)] at z1 zb
    have hcb0 : cb' = 0 := carry_zero_of_pos hB zcb zb
    subst hcb0
    rw [I_neg_zero_zero, int_land_neg_one] at z1
    refine ⟨o1 ++ a.drop b.length, by simp, zok.append (ha.1.drop _), ?_⟩
    rw [val_append, zl]
    push_cast at z1 ⊢
    linear_combination -z1

theorem bitandNegPos_spec (a b : List Nat) (ha : Canon a) (hb : Canon b) (hane : a ≠ []) :
    ∃ out, bitandNegPos a b = .ok out ∧ DigitsOk out ∧
      (val out : Int) = Int.land (-(val a : Int)) (val b : Int) := by
  have hA := canon_val_pos ha hane
  obtain ⟨z1, ⟨sa, hsa, za⟩, ⟨sb, hsb, zb⟩, zl, zok, zca, zcb, zcr⟩ :=
    zip_int intOp_and true false false a b 1 0 0 ha.1 hb.1 (by decide) (by decide) (by decide)
  rw [I_neg_one, I_pos, I_pos, I_pos, I_pos] at z1
  unfold bitandNegPos
  simp only
  generalize zipLoop (fun x1 x2 => x1 &&& x2) true false false 1 0 0 a b = z at *
  obtain ⟨o1, ca', cb', cr'⟩ := z
  simp only at *
  rcases Nat.lt_trichotomy a.length b.length with hlt | heq | hgt
  · have hk : min a.length b.length = a.length := Nat.min_eq_left (by omega)
    rw [hk] at z1 za zb zl
    rw [val_drop_nil a (Nat.le_refl _)] at z1 za
    have hca0 : ca' = 0 := carry_zero_of_pos hA zca za
    subst hca0
    rw [I_neg_zero_zero, int_neg_one_land] at z1
    have hcmp : compare a.length b.length = .lt := Nat.compare_eq_lt.2 hlt
    refine ⟨o1 ++ a.drop b.length ++ b.drop a.length, by simp [hcmp], (zok.append (ha.1.drop _)).append (hb.1.drop _), ?_⟩
    rw [List.drop_eq_nil_of_le (by omega), List.append_nil, val_append, zl]
    push_cast at z1 ⊢
    linear_combination -z1
  · have hk : min a.length b.length = a.length := Nat.min_eq_left (by omega)
    rw [hk] at z1 za zb zl
    rw [val_drop_nil a (Nat.le_refl _), val_drop_nil b (by omega)] at z1
    rw [val_drop_nil a (Nat.le_refl _)] at za
    have hca0 : ca' = 0 := carry_zero_of_pos hA zca za
    subst hca0
    rw [int_land_zero] at z1
    have hcmp : compare a.length b.length = .eq := Nat.compare_eq_eq.2 heq
    refine ⟨o1 ++ a.drop b.length, by simp [hcmp], zok.append (ha.1.drop _), ?_⟩
    rw [List.drop_eq_nil_of_le (by omega), List.append_nil]
    push_cast at z1 ⊢
    linear_combination -z1
  · have hk : min a.length b.length = b.length := Nat.min_eq_right (by omega)
    rw [hk] at z1 za zb zl
    rw [val_drop_nil b (Nat.le_refl _), int_land_zero] at z1
    have hcmp : compare a.length b.length = .gt := Nat.compare_eq_gt.2 hgt
    refine ⟨(o1 ++ a.drop b.length).take b.length, by simp [hcmp, hgt], ((zok.append (ha.1.drop _)).take _), ?_⟩
    rw [List.take_append_of_le_length (by omega), List.take_of_length_le (by omega)]
    push_cast at z1 ⊢
    linear_combination -z1

theorem ldiff_le (n m : Nat) : Nat.ldiff n m ≤ n := by
  have : Nat.ldiff n m = n &&& Nat.ldiff n m := by
    apply Nat.eq_of_testBit_eq; intro i
    rw [Nat.testBit_and, Nat.testBit_ldiff]
    cases n.testBit i <;> simp
  rw [this]; exact Nat.and_le_left

theorem neg_succ_cast (n : Nat) : -((n + 1 : Nat) : Int) = Int.negSucc n := by
  rw [Int.negSucc_eq]; push_cast; rfl

/-- `-(A | -B') ≤ B'`: or-ing into a negative number can only bring it closer to zero -/
theorem lor_pos_neg_bound (A B' : Nat) (hB : 0 < B') : -Int.lor (A : Int) (-(B' : Int)) ≤ B' := by
  obtain ⟨n, rfl⟩ : ∃ n, B' = n + 1 := ⟨B' - 1, by omega⟩
  rw [neg_succ_cast]
  show -(Int.negSucc (Nat.ldiff n A)) ≤ _
  rw [Int.negSucc_eq]
  have := ldiff_le n A
  push_cast; omega

theorem lor_neg_pos_bound (A B' : Nat) (hA : 0 < A) : -Int.lor (-(A : Int)) (B' : Int) ≤ A := by
  obtain ⟨n, rfl⟩ : ∃ n, A = n + 1 := ⟨A - 1, by omega⟩
  rw [neg_succ_cast]
  show -(Int.negSucc (Nat.ldiff n B')) ≤ _
  rw [Int.negSucc_eq]
  have := ldiff_le n B'
  push_cast; omega

theorem lor_neg_neg_bound (A B' : Nat) (hA : 0 < A) (hB : 0 < B') :
    -Int.lor (-(A : Int)) (-(B' : Int)) ≤ A ∧ -Int.lor (-(A : Int)) (-(B' : Int)) ≤ B' := by
  obtain ⟨n, rfl⟩ : ∃ n, A = n + 1 := ⟨A - 1, by omega⟩
  obtain ⟨m, rfl⟩ : ∃ m, B' = m + 1 := ⟨B' - 1, by omega⟩
  rw [neg_succ_cast, neg_succ_cast]
  show -(Int.negSucc (n &&& m)) ≤ _ ∧ -(Int.negSucc (n &&& m)) ≤ _
  rw [Int.negSucc_eq]
  have h1 : n &&& m ≤ n := Nat.and_le_left
  have h2 : n &&& m ≤ m := Nat.and_le_right
  push_cast; omega

/-- a magnitude below `P` written as `o + P * c` with `c ≤ 1` has `c = 0` -/
theorem top_carry_zero {M : Int} {o P c bound : Nat} (hc : c ≤ 1) (hM : M = (o : Int) + (P : Nat) * (c : Int))
    (hb : M ≤ bound) (hlt : bound < P) : c = 0 := by
  rcases Nat.le_one_iff_eq_zero_or_eq_one.mp hc with h0 | h1
  · exact h0
  · subst h1; push_cast at hM; omega

theorem bitorNegNeg_spec (a b : List Nat) (ha : Canon a) (hb : Canon b) (hane : a ≠ []) (hbne : b ≠ []) :
    ∃ out, bitorNegNeg a b = .ok out ∧ DigitsOk out ∧
      -(val out : Int) = Int.lor (-(val a : Int)) (-(val b : Int)) := by
  have hA := canon_val_pos ha hane
  have hB := canon_val_pos hb hbne
  have hAlt := val_lt ha.1
  have hBlt := val_lt hb.1
  obtain ⟨bd1, bd2⟩ := lor_neg_neg_bound _ _ hA hB
  obtain ⟨z1, ⟨sa, hsa, za⟩, ⟨sb, hsb, zb⟩, zl, zok, zca, zcb, zcr⟩ :=
    zip_int intOp_or true true true a b 1 1 1 ha.1 hb.1 (by decide) (by decide) (by decide)
  rw [I_neg_one, I_neg_one, I_neg_one] at z1
  unfold bitorNegNeg
  simp only
  generalize zipLoop (fun x1 x2 => x1 ||| x2) true true true 1 1 1 a b = z at *
  obtain ⟨o1, ca', cb', cr'⟩ := z
  simp only at *
  by_cases hle : a.length ≤ b.length
  · have hk : min a.length b.length = a.length := Nat.min_eq_left hle
    rw [hk] at z1 za zb zl
    rw [val_drop_nil a (Nat.le_refl _)] at z1 za
    have hca0 : ca' = 0 := carry_zero_of_pos hA zca za
    subst hca0
    rw [I_neg_zero_zero, int_neg_one_lor, I_neg_of_neg_one] at z1
    have hcr0 : cr' = 0 := top_carry_zero zcr z1 bd1 hAlt
    subst hcr0
    have hass : b.length > a.length ∨ cb' = 0 := by
      by_cases h : b.length > a.length
      · exact Or.inl h
      · right
        rw [val_drop_nil b (by omega)] at zb
        exact carry_zero_of_pos hB zcb zb
    have hng : ¬ a.length > b.length := by omega
    refine ⟨o1 ++ a.drop b.length, by simp [hass, hng], zok.append (ha.1.drop _), ?_⟩
    rw [List.drop_eq_nil_of_le hle, List.append_nil]
    push_cast at z1 ⊢
    linear_combination z1
  · have hgt : a.length > b.length := by omega
    have hk : min a.length b.length = b.length := Nat.min_eq_right (by omega)
    rw [hk] at z1 za zb zl
    rw [val_drop_nil b (Nat.le_refl _)] at z1 zb
    have hcb0 : cb' = 0 := carry_zero_of_pos hB zcb zb
    subst hcb0
    rw [I_neg_zero_zero, int_lor_neg_one, I_neg_of_neg_one] at z1
    have hcr0 : cr' = 0 := top_carry_zero zcr z1 bd2 hBlt
    subst hcr0
    refine ⟨(o1 ++ a.drop b.length).take b.length, by simp [hgt], (zok.append (ha.1.drop _)).take _, ?_⟩
    rw [List.take_append_of_le_length (by omega), List.take_of_length_le (by omega)]
    push_cast at z1 ⊢
    linear_combination z1

theorem bitorPosNeg_spec (a b : List Nat) (ha : Canon a) (hb : Canon b) (hbne : b ≠ []) :
    ∃ out, bitorPosNeg a b = .ok out ∧ DigitsOk out ∧
      -(val out : Int) = Int.lor (val a : Int) (-(val b : Int)) := by
  have hB := canon_val_pos hb hbne
  have hBlt := val_lt hb.1
  have bd := lor_pos_neg_bound (val a) _ hB
  obtain ⟨z1, ⟨sa, hsa, za⟩, ⟨sb, hsb, zb⟩, zl, zok, zca, zcb, zcr⟩ :=
    zip_int intOp_or false true true a b 0 1 1 ha.1 hb.1 (by decide) (by decide) (by decide)
  rw [I_neg_one, I_neg_one, I_pos, I_pos] at z1
  unfold bitorPosNeg
  simp only
  generalize zipLoop (fun x1 x2 => x1 ||| x2) false true true 0 1 1 a b = z at *
  obtain ⟨o1, ca', cb', cr'⟩ := z
  simp only at *
  rcases Nat.lt_trichotomy a.length b.length with hlt | heq | hgt
  · have hk : min a.length b.length = a.length := Nat.min_eq_left (by omega)
    rw [hk] at z1 za zb zl
    rw [val_drop_nil a (Nat.le_refl _), int_zero_lor] at z1
    obtain ⟨t1, ⟨s2, hs2, t2⟩, tl, tok, tci, tco⟩ :=
      tail_int true false true (b.drop a.length) cb' cr' (hb.1.drop _) zcb zcr
    rw [F_false, F_false] at t1
    generalize tailLoop true false true cb' cr' (b.drop a.length) = t at *
    obtain ⟨o2, cb'', cr''⟩ := t
    simp only at *
    have hcb0 : cb'' = 0 := carry_zero_of_pos2 hB tci zb t2
    subst hcb0
    rw [I_neg_zero_zero, I_neg_of_neg_one] at t1
    rw [t1] at z1
    have hM : -Int.lor (val a : Int) (-(val b : Int)) =
        ((val (o1 ++ o2) : Nat) : Int) + ((B ^ b.length : Nat) : Nat) * (cr'' : Int) := by
      rw [val_append, zl]
      have : b.length = a.length + (b.drop a.length).length := by simp; omega
      rw [this]
      push_cast at z1 ⊢
      linear_combination z1
    have hcr0 : cr'' = 0 := top_carry_zero tco hM bd hBlt
    subst hcr0
    have hcmp : compare a.length b.length = .lt := Nat.compare_eq_lt.2 hlt
    refine ⟨o1 ++ o2, by simp [hcmp, hlt], zok.append tok, ?_⟩
    push_cast at hM ⊢
    linear_combination hM
  · have hk : min a.length b.length = b.length := Nat.min_eq_right (by omega)
    rw [hk] at z1 za zb zl
    rw [val_drop_nil b (Nat.le_refl _)] at z1 zb
    have hcb0 : cb' = 0 := carry_zero_of_pos hB zcb zb
    subst hcb0
    rw [I_neg_zero_zero, int_lor_neg_one, I_neg_of_neg_one] at z1
    have hcr0 : cr' = 0 := top_carry_zero zcr z1 bd hBlt
    subst hcr0
    have hcmp : compare a.length b.length = .eq := Nat.compare_eq_eq.2 heq
    refine ⟨o1, by simp [hcmp], zok, ?_⟩
    push_cast at z1 ⊢
    linear_combination z1
  · have hk : min a.length b.length = b.length := Nat.min_eq_right (by omega)
    rw [hk] at z1 za zb zl
    rw [val_drop_nil b (Nat.le_refl _)] at z1 zb
    have hcb0 : cb' = 0 := carry_zero_of_pos hB zcb zb
    subst hcb0
    rw [I_neg_zero_zero, int_lor_neg_one, I_neg_of_neg_one] at z1
    have hcr0 : cr' = 0 := top_carry_zero zcr z1 bd hBlt
    subst hcr0
    have hcmp : compare a.length b.length = .gt := Nat.compare_eq_gt.2 hgt
    refine ⟨(o1 ++ a.drop b.length).take b.length, by simp [hcmp], (zok.append (ha.1.drop _)).take _, ?_⟩
    rw [List.take_append_of_le_length (by omega), List.take_of_length_le (by omega)]
    push_cast at z1 ⊢
    linear_combination z1

theorem bitorNegPos_spec (a b : List Nat) (ha : Canon a) (hb : Canon b) (hane : a ≠ []) :
    ∃ out, bitorNegPos a b = .ok out ∧ DigitsOk out ∧
      -(val out : Int) = Int.lor (-(val a : Int)) (val b : Int) := by
  have hA := canon_val_pos ha hane
  have hAlt := val_lt ha.1
  have bd := lor_neg_pos_bound _ (val b) hA
  obtain ⟨z1, ⟨sa, hsa, za⟩, ⟨sb, hsb, zb⟩, zl, zok, zca, zcb, zcr⟩ :=
    zip_int intOp_or true false true a b 1 0 1 ha.1 hb.1 (by decide) (by decide) (by decide)
  rw [I_neg_one, I_neg_one, I_pos, I_pos] at z1
  unfold bitorNegPos
  simp only
  generalize zipLoop (fun x1 x2 => x1 ||| x2) true false true 1 0 1 a b = z at *
  obtain ⟨o1, ca', cb', cr'⟩ := z
  simp only at *
  by_cases hgt : a.length > b.length
  · have hk : min a.length b.length = b.length := Nat.min_eq_right (by omega)
    rw [hk] at z1 za zb zl
    rw [val_drop_nil b (Nat.le_refl _), int_lor_zero] at z1
    obtain ⟨t1, ⟨s2, hs2, t2⟩, tl, tok, tci, tco⟩ :=
      tail_int true false true (a.drop b.length) ca' cr' (ha.1.drop _) zca zcr
    rw [F_false, F_false] at t1
    generalize tailLoop true false true ca' cr' (a.drop b.length) = t at *
    obtain ⟨o2, ca'', cr''⟩ := t
    simp only at *
    have hca0 : ca'' = 0 := carry_zero_of_pos2 hA tci za t2
    subst hca0
    rw [I_neg_zero_zero, I_neg_of_neg_one] at t1
    rw [t1] at z1
    have hM : -Int.lor (-(val a : Int)) (val b : Int) =
        ((val (o1 ++ o2) : Nat) : Int) + ((B ^ a.length : Nat) : Nat) * (cr'' : Int) := by
      rw [val_append, zl]
      have : a.length = b.length + (a.drop b.length).length := by simp; omega
      rw [this]
      push_cast at z1 ⊢
      linear_combination z1
    have hcr0 : cr'' = 0 := top_carry_zero tco hM bd hAlt
    subst hcr0
    refine ⟨o1 ++ o2, by simp [hgt], zok.append tok, ?_⟩
    push_cast at hM ⊢
    linear_combination hM
  · have hk : min a.length b.length = a.length := Nat.min_eq_left (by omega)
    rw [hk] at z1 za zb zl
    rw [val_drop_nil a (Nat.le_refl _)] at z1 za
    have hca0 : ca' = 0 := carry_zero_of_pos hA zca za
    subst hca0
    rw [I_neg_zero_zero, int_neg_one_lor, I_neg_of_neg_one] at z1
    have hcr0 : cr' = 0 := top_carry_zero zcr z1 bd hAlt
    subst hcr0
    refine ⟨o1, by simp [hgt], zok, ?_⟩
    push_cast at z1 ⊢
    linear_combination z1

theorem I_neg_true_zero (c : Nat) : I true c (-1) = c := I_neg_of_neg_one c

theorem bitxorPosNeg_spec (a b : List Nat) (ha : Canon a) (hb : Canon b) (hbne : b ≠ []) :
    ∃ out, bitxorPosNeg a b = .ok out ∧ DigitsOk out ∧
      -(val out : Int) = Int.xor (val a : Int) (-(val b : Int)) := by
  have hB := canon_val_pos hb hbne
  obtain ⟨z1, ⟨sa, hsa, za⟩, ⟨sb, hsb, zb⟩, zl, zok, zca, zcb, zcr⟩ :=
    zip_int intOp_xor false true true a b 0 1 1 ha.1 hb.1 (by decide) (by decide) (by decide)
  rw [I_neg_one, I_neg_one, I_pos, I_pos] at z1
  unfold bitxorPosNeg
  simp only
  generalize zipLoop (fun x1 x2 => x1 ^^^ x2) false true true 0 1 1 a b = z at *
  obtain ⟨o1, ca', cb', cr'⟩ := z
  simp only at *
  rcases Nat.lt_trichotomy a.length b.length with hlt | heq | hgt
  · have hk : min a.length b.length = a.length := Nat.min_eq_left (by omega)
    rw [hk] at z1 za zb zl
    rw [val_drop_nil a (Nat.le_refl _), int_zero_xor] at z1
    obtain ⟨t1, ⟨s2, hs2, t2⟩, tl, tok, tci, tco⟩ :=
      tail_int true false true (b.drop a.length) cb' cr' (hb.1.drop _) zcb zcr
    rw [F_false, F_false] at t1
    generalize tailLoop true false true cb' cr' (b.drop a.length) = t at *
    obtain ⟨o2, cb'', cr''⟩ := t
    simp only at *
    have hcb0 : cb'' = 0 := carry_zero_of_pos2 hB tci zb t2
    subst hcb0
    rw [I_neg_zero_zero, I_neg_of_neg_one] at t1
    rw [t1] at z1
    have hcmp : compare a.length b.length = .lt := Nat.compare_eq_lt.2 hlt
    obtain ⟨f1, f2⟩ := fin_val (zok.append tok) tco
    refine ⟨if cr'' ≠ 0 then (o1 ++ o2) ++ [1] else o1 ++ o2, by simp [hcmp, hlt], f2, ?_⟩
    rw [f1, val_append, zl, List.length_append, zl, tl]
    push_cast at z1 ⊢
    linear_combination z1
  · have hk : min a.length b.length = b.length := Nat.min_eq_right (by omega)
    rw [hk] at z1 za zb zl
    rw [val_drop_nil b (Nat.le_refl _)] at z1 zb
    have hcb0 : cb' = 0 := carry_zero_of_pos hB zcb zb
    subst hcb0
    rw [val_drop_nil a (by omega), I_neg_zero_zero, int_zero_xor, I_neg_of_neg_one] at z1
    have hcmp : compare a.length b.length = .eq := Nat.compare_eq_eq.2 heq
    obtain ⟨f1, f2⟩ := fin_val zok zcr
    refine ⟨if cr' ≠ 0 then o1 ++ [1] else o1, by simp [hcmp], f2, ?_⟩
    rw [f1, zl]
    push_cast at z1 ⊢
    linear_combination z1
  · have hk : min a.length b.length = b.length := Nat.min_eq_right (by omega)
    rw [hk] at z1 za zb zl
    rw [val_drop_nil b (Nat.le_refl _)] at z1 zb
    have hcb0 : cb' = 0 := carry_zero_of_pos hB zcb zb
    subst hcb0
    rw [I_neg_zero_zero, int_xor_neg_one] at z1
    obtain ⟨t1, ⟨s2, hs2, t2⟩, tl, tok, tci, tco⟩ :=
      tail_int false true true (a.drop b.length) 0 cr' (ha.1.drop _) (by decide) zcr
    rw [F_true, F_true, I_pos, I_pos] at t1
    generalize tailLoop false true true 0 cr' (a.drop b.length) = t at *
    obtain ⟨o2, cx, cr''⟩ := t
    simp only at *
    rw [show (-(0 : Int) - 1) = -1 by simp, I_neg_of_neg_one] at t1
    rw [t1] at z1
    have hcmp : compare a.length b.length = .gt := Nat.compare_eq_gt.2 hgt
    obtain ⟨f1, f2⟩ := fin_val (zok.append tok) tco
    refine ⟨if cr'' ≠ 0 then (o1 ++ o2) ++ [1] else o1 ++ o2, by simp [hcmp], f2, ?_⟩
    rw [f1, val_append, zl, List.length_append, zl, tl]
    push_cast at z1 ⊢
    linear_combination z1

theorem bitxorNegPos_spec (a b : List Nat) (ha : Canon a) (hb : Canon b) (hane : a ≠ []) :
    ∃ out, bitxorNegPos a b = .ok out ∧ DigitsOk out ∧
      -(val out : Int) = Int.xor (-(val a : Int)) (val b : Int) := by
  have hA := canon_val_pos ha hane
  obtain ⟨z1, ⟨sa, hsa, za⟩, ⟨sb, hsb, zb⟩, zl, zok, zca, zcb, zcr⟩ :=
    zip_int intOp_xor true false true a b 1 0 1 ha.1 hb.1 (by decide) (by decide) (by decide)
  rw [I_neg_one, I_neg_one, I_pos, I_pos] at z1
  unfold bitxorNegPos
  simp only
  generalize zipLoop (fun x1 x2 => x1 ^^^ x2) true false true 1 0 1 a b = z at *
  obtain ⟨o1, ca', cb', cr'⟩ := z
  simp only at *
  rcases Nat.lt_trichotomy a.length b.length with hlt | heq | hgt
  · have hk : min a.length b.length = a.length := Nat.min_eq_left (by omega)
    rw [hk] at z1 za zb zl
    rw [val_drop_nil a (Nat.le_refl _)] at z1 za
    have hca0 : ca' = 0 := carry_zero_of_pos hA zca za
    subst hca0
    rw [I_neg_zero_zero, int_neg_one_xor] at z1
    obtain ⟨t1, ⟨s2, hs2, t2⟩, tl, tok, tci, tco⟩ :=
      tail_int false true true (b.drop a.length) 0 cr' (hb.1.drop _) (by decide) zcr
    rw [F_true, F_true, I_pos, I_pos] at t1
    generalize tailLoop false true true 0 cr' (b.drop a.length) = t at *
    obtain ⟨o2, cx, cr''⟩ := t
    simp only at *
    rw [show (-(0 : Int) - 1) = -1 by simp, I_neg_of_neg_one] at t1
    rw [t1] at z1
    have hcmp : compare a.length b.length = .lt := Nat.compare_eq_lt.2 hlt
    obtain ⟨f1, f2⟩ := fin_val (zok.append tok) tco
    refine ⟨if cr'' ≠ 0 then (o1 ++ o2) ++ [1] else o1 ++ o2, by simp [hcmp], f2, ?_⟩
    rw [f1, val_append, zl, List.length_append, zl, tl]
    push_cast at z1 ⊢
    linear_combination z1
  · have hk : min a.length b.length = a.length := Nat.min_eq_left (by omega)
    rw [hk] at z1 za zb zl
    rw [val_drop_nil a (Nat.le_refl _)] at z1 za
    have hca0 : ca' = 0 := carry_zero_of_pos hA zca za
    subst hca0
    rw [val_drop_nil b (by omega), I_neg_zero_zero, int_xor_zero, I_neg_of_neg_one] at z1
    have hcmp : compare a.length b.length = .eq := Nat.compare_eq_eq.2 heq
    obtain ⟨f1, f2⟩ := fin_val zok zcr
    refine ⟨if cr' ≠ 0 then o1 ++ [1] else o1, by simp [hcmp], f2, ?_⟩
    rw [f1, zl]
    push_cast at z1 ⊢
    linear_combination z1
  · have hk : min a.length b.length = b.length := Nat.min_eq_right (by omega)
    rw [hk] at z1 za zb zl
    rw [val_drop_nil b (Nat.le_refl _), int_xor_zero] at z1
    obtain ⟨t1, ⟨s2, hs2, t2⟩, tl, tok, tci, tco⟩ :=
      tail_int true false true (a.drop b.length) ca' cr' (ha.1.drop _) zca zcr
    rw [F_false, F_false] at t1
    generalize tailLoop true false true ca' cr' (a.drop b.length) = t at *
    obtain ⟨o2, ca'', cr''⟩ := t
    simp only at *
    have hca0 : ca'' = 0 := carry_zero_of_pos2 hA tci za t2
    subst hca0
    rw [I_neg_zero_zero, I_neg_of_neg_one] at t1
    rw [t1] at z1
    have hcmp : compare a.length b.length = .gt := Nat.compare_eq_gt.2 hgt
    obtain ⟨f1, f2⟩ := fin_val (zok.append tok) tco
    refine ⟨if cr'' ≠ 0 then (o1 ++ o2) ++ [1] else o1 ++ o2, by simp [hcmp, hgt], f2, ?_⟩
    rw [f1, val_append, zl, List.length_append, zl, tl]
    push_cast at z1 ⊢
    linear_combination z1

theorem bitxorNegNeg_spec (a b : List Nat) (ha : Canon a) (hb : Canon b) (hane : a ≠ []) (hbne : b ≠ []) :
    ∃ out, bitxorNegNeg a b = .ok out ∧ DigitsOk out ∧
      (val out : Int) = Int.xor (-(val a : Int)) (-(val b : Int)) := by
  have hA := canon_val_pos ha hane
  have hB := canon_val_pos hb hbne
  obtain ⟨z1, ⟨sa, hsa, za⟩, ⟨sb, hsb, zb⟩, zl, zok, zca, zcb, zcr⟩ :=
    zip_int intOp_xor true true false a b 1 1 0 ha.1 hb.1 (by decide) (by decide) (by decide)
  rw [I_neg_one, I_neg_one, I_pos, I_pos] at z1
  unfold bitxorNegNeg
  simp only
  generalize zipLoop (fun x1 x2 => x1 ^^^ x2) true true false 1 1 0 a b = z at *
  obtain ⟨o1, ca', cb', cr'⟩ := z
  simp only at *
  rcases Nat.lt_trichotomy a.length b.length with hlt | heq | hgt
  · have hk : min a.length b.length = a.length := Nat.min_eq_left (by omega)
    rw [hk] at z1 za zb zl
    rw [val_drop_nil a (Nat.le_refl _)] at z1 za
    have hca0 : ca' = 0 := carry_zero_of_pos hA zca za
    subst hca0
    rw [I_neg_zero_zero, int_neg_one_xor] at z1
    obtain ⟨t1, ⟨s2, hs2, t2⟩, tl, tok, tci, tco⟩ :=
      tail_int true true false (b.drop a.length) cb' 0 (hb.1.drop _) zcb (by decide)
    rw [F_true, F_true, I_pos, I_pos] at t1
    generalize tailLoop true true false cb' 0 (b.drop a.length) = t at *
    obtain ⟨o2, cb'', cx⟩ := t
    simp only at *
    have hcb0 : cb'' = 0 := carry_zero_of_pos2 hB tci zb t2
    subst hcb0
    rw [I_neg_zero_zero] at t1
    rw [t1] at z1
    have hcmp : compare a.length b.length = .lt := Nat.compare_eq_lt.2 hlt
    refine ⟨o1 ++ o2, by simp [hcmp, hlt], zok.append tok, ?_⟩
    rw [val_append, zl]
    push_cast at z1 ⊢
    linear_combination -z1
  · have hk : min a.length b.length = a.length := Nat.min_eq_left (by omega)
    rw [hk] at z1 za zb zl
    rw [val_drop_nil a (Nat.le_refl _), val_drop_nil b (by omega)] at z1
    rw [val_drop_nil a (Nat.le_refl _)] at za
    rw [val_drop_nil b (by omega)] at zb
    have hca0 : ca' = 0 := carry_zero_of_pos hA zca za
    have hcb0 : cb' = 0 := carry_zero_of_pos hB zcb zb
    subst hca0 hcb0
    rw [I_neg_zero_zero, int_neg_one_xor] at z1
    have hcmp : compare a.length b.length = .eq := Nat.compare_eq_eq.2 heq
    refine ⟨o1, by simp [heq], zok, ?_⟩
    push_cast at z1 ⊢
    linear_combination -z1
  · have hk : min a.length b.length = b.length := Nat.min_eq_right (by omega)
    rw [hk] at z1 za zb zl
    rw [val_drop_nil b (Nat.le_refl _)] at z1 zb
    have hcb0 : cb' = 0 := carry_zero_of_pos hB zcb zb
    subst hcb0
    rw [I_neg_zero_zero, int_xor_neg_one] at z1
    obtain ⟨t1, ⟨s2, hs2, t2⟩, tl, tok, tci, tco⟩ :=
      tail_int true true false (a.drop b.length) ca' 0 (ha.1.drop _) zca (by decide)
    rw [F_true, F_true, I_pos, I_pos] at t1
    generalize tailLoop true true false ca' 0 (a.drop b.length) = t at *
    obtain ⟨o2, ca'', cx⟩ := t
    simp only at *
    have hca0 : ca'' = 0 := carry_zero_of_pos2 hA tci za t2
    subst hca0
    rw [I_neg_zero_zero] at t1
    rw [t1] at z1
    have hcmp : compare a.length b.length = .gt := Nat.compare_eq_gt.2 hgt
    refine ⟨o1 ++ o2, by simp [hcmp, hgt], zok.append tok, ?_⟩
    rw [val_append, zl]
    push_cast at z1 ⊢
    linear_combination -z1

theorem normalizeI_minus {d : List Nat} (hd : DigitsOk d) :
    BigInt.normalizeI ⟨.minus, d⟩ = BigInt.ofInt (-(val d : Int)) := by
  unfold BigInt.normalizeI
  simp only
  have hc := normalize_canon hd
  have hv := normalize_val d
  by_cases h0 : normalize d = []
  · simp only [h0, if_true]
    rw [h0] at hv
    simp [val] at hv
    rw [← hv]; simp [BigInt.ofInt]
  · simp only [h0, if_false]
    have := fromBiguint_minus hc
    unfold BigInt.fromBiguint at this
    simp only [h0, reduceCtorEq, if_false] at this
    rw [this, hv]

theorem normalizeI_plus {d : List Nat} (hd : DigitsOk d) :
    BigInt.normalizeI ⟨.plus, d⟩ = BigInt.ofInt (val d : Int) := by
  unfold BigInt.normalizeI
  simp only
  have hc := normalize_canon hd
  have hv := normalize_val d
  by_cases h0 : normalize d = []
  · simp only [h0, if_true]
    rw [h0] at hv
    simp [val] at hv
    rw [← hv]; simp [BigInt.ofInt]
  · simp only [h0, if_false]
    have := fromBiguint_plus hc
    unfold BigInt.fromBiguint at this
    simp only [h0, reduceCtorEq, if_false] at this
    rw [this, hv]

theorem int_land_comm (x y : Int) : Int.land x y = Int.land y x := by
  apply int_eq_of_testBit_eq; intro j; simp [Int.testBit_land, Bool.and_comm]
theorem int_lor_comm (x y : Int) : Int.lor x y = Int.lor y x := by
  apply int_eq_of_testBit_eq; intro j; simp [Int.testBit_lor, Bool.or_comm]
theorem int_xor_comm (x y : Int) : Int.xor x y = Int.xor y x := by
  apply int_eq_of_testBit_eq; intro j; simp [Int.testBit_lxor, Bool.xor_comm]

theorem plus_if_ofNat (n : Nat) :
    (if ofNat n = [] then (⟨.nosign, ofNat n⟩ : BigInt) else ⟨.plus, ofNat n⟩) = BigInt.ofInt (n : Int) := by
  by_cases h : n = 0
  · subst h; simp [ofNat_zero, BigInt.ofInt]
  · have : ofNat n ≠ [] := by rw [ne_eq, ofNat_eq_nil_iff]; exact h
    simp only [this, if_false]
    rw [ofInt_of_pos (Nat.pos_of_ne_zero h)]

theorem bigint_nosign_val {m : List Nat} : (⟨.nosign, m⟩ : BigInt).val = 0 := rfl

theorem bigint_nosign_eq {m : List Nat} (h : (⟨.nosign, m⟩ : BigInt).Canon) :
    (⟨.nosign, m⟩ : BigInt) = BigInt.ofInt 0 := by
  have := bigint_canon_eq_ofInt h
  rw [bigint_nosign_val] at this; exact this

theorem bigint_mag_ne {s : Sign} {m : List Nat} (h : (⟨s, m⟩ : BigInt).Canon) (hs : s ≠ .nosign) : m ≠ [] :=
  fun e => hs (h.2.mpr e)

end NB.C07
