/-
  C19 — Sign, negation and identity helpers agree with the integer value.

  All statements are about the model NB.Model.Core (written from src/bigint.rs, src/biguint.rs,
  src/bigint/convert.rs, src/bigint/multiplication.rs and correspondence-checked against the real
  crate on every run).  Results are stated as "the canonical representation of the mathematical
  result" (`BigInt.ofInt …` / `ofNat …`), which also says that every helper preserves canonicity.
-/
import NB.Props.C04
namespace NB
open Core

/-! ## negation -/

/-- `-x` (by value and by reference) is the additive inverse -/
theorem bigint_neg_spec {x : BigInt} (hx : x.Canon) :
    BigInt.negVal x = BigInt.ofInt (- x.val) ∧ BigInt.negRef x = BigInt.ofInt (- x.val) :=
  ⟨bigint_negVal_eq hx, bigint_negVal_eq hx⟩

theorem bigint_neg_neg {x : BigInt} : BigInt.negVal (BigInt.negVal x) = x := by
  rcases x with ⟨s, m⟩; cases s <;> rfl

/-! ## abs, signum, sign queries -/

theorem bigint_abs_spec {x : BigInt} (hx : x.Canon) : BigInt.abs x = BigInt.ofInt (x.val.natAbs : Int) := by
  have hm := bigint_canon_mag hx
  obtain ⟨h1, h2, h3⟩ := bigint_canon_sign hx
  rcases x with ⟨s, m⟩
  simp only at hm h1 h2 h3
  cases s with
  | nosign =>
    have : BigInt.val ⟨.nosign, m⟩ = 0 := h2.mp rfl
    have hx' := bigint_canon_eq_ofInt hx
    simp only [BigInt.abs, BigInt.clone, BigUint.clone]
    rw [this] at hx' ⊢; exact hx'
  | plus =>
    have hp : 0 < BigInt.val ⟨.plus, m⟩ := h3.mp rfl
    simp only [BigInt.abs, BigInt.clone, BigUint.clone]
    have : ((BigInt.val ⟨.plus, m⟩).natAbs : Int) = BigInt.val ⟨.plus, m⟩ := by omega
    rw [this]; exact bigint_canon_eq_ofInt hx
  | minus =>
    have hn : BigInt.val ⟨.minus, m⟩ < 0 := h1.mp rfl
    have hne : (BigInt.val ⟨.minus, m⟩).natAbs ≠ 0 := by omega
    have hz : ¬ (BigUint.isZero m = true) := by
      rw [isZero_iff, hm, ofNat_eq_nil_iff]; exact hne
    rw [ofInt_natCast, if_neg hne, ← hm]
    simp [BigInt.abs, BigUint.clone, Core.BigInt.fromU, hz]

theorem ofInt_one : BigInt.ofInt 1 = ⟨.plus, [1]⟩ := by
  have := ofInt_natCast 1; simpa [ofNat_one] using this

theorem ofInt_neg_one : BigInt.ofInt (-1) = ⟨.minus, [1]⟩ := by
  have := ofInt_negNatCast 1; simpa [ofNat_one] using this

theorem bigint_signum_spec {x : BigInt} (hx : x.Canon) : BigInt.signum x = BigInt.ofInt (Int.sign x.val) := by
  obtain ⟨h1, h2, h3⟩ := bigint_canon_sign hx
  rcases x with ⟨s, m⟩
  simp only at h1 h2 h3
  cases s with
  | nosign => rw [h2.mp rfl]; simp [BigInt.signum, BigInt.zero, BigUint.zero, ofInt_zero]
  | plus =>
    rw [Int.sign_eq_one_of_pos (h3.mp rfl), ofInt_one]; rfl
  | minus =>
    rw [Int.sign_eq_neg_one_of_neg (h1.mp rfl), ofInt_neg_one]; rfl

theorem bigint_is_positive_spec {x : BigInt} (hx : x.Canon) : BigInt.isPositive x = true ↔ 0 < x.val := by
  unfold BigInt.isPositive; rw [beq_iff_eq]; exact (bigint_canon_sign hx).2.2

theorem bigint_is_negative_spec {x : BigInt} (hx : x.Canon) : BigInt.isNegative x = true ↔ x.val < 0 := by
  unfold BigInt.isNegative; rw [beq_iff_eq]; exact (bigint_canon_sign hx).1

/-- `sign()` reports the sign of the value -/
theorem bigint_sign_spec {x : BigInt} (hx : x.Canon) : BigInt.getSign x = Sign.ofInt x.val := by
  obtain ⟨h1, h2, h3⟩ := bigint_canon_sign hx
  unfold BigInt.getSign Sign.ofInt
  by_cases hn : x.val < 0
  · rw [if_pos hn]; exact h1.mpr hn
  · rw [if_neg hn]
    by_cases hz : x.val = 0
    · rw [if_pos hz]; exact h2.mpr hz
    · rw [if_neg hz]; exact h3.mpr (by omega)

/-- `magnitude()` is the canonical representation of |x| -/
theorem bigint_magnitude_spec {x : BigInt} (hx : x.Canon) : BigInt.magnitude x = ofNat x.val.natAbs :=
  bigint_canon_mag hx

/-! ## abs_sub -/

/-- `abs_sub(x, y) = max(x − y, 0)`, canonical, never panics -/
theorem bigint_abs_sub_spec (P : Params) {x y : BigInt} (hx : x.Canon) (hy : y.Canon) :
    BigInt.absSub P x y = .ok (BigInt.ofInt (max (x.val - y.val) 0)) := by
  unfold BigInt.absSub
  by_cases hle : ordIsLe (BigInt.cmp x y) = true
  · have := (bigint_le_spec hx hy).mp hle
    rw [if_pos hle, Int.max_eq_right (by omega)]
    simp [BigInt.zero, BigUint.zero, ofInt_zero]
  · have : ¬ x.val ≤ y.val := fun h => hle ((bigint_le_spec hx hy).mpr h)
    rw [if_neg hle, bigint_sub_spec P x y hx hy, Int.max_eq_left (by omega)]

/-! ## into_parts / from_biguint -/

/-- on a canonical pair, `into_parts ∘ from_biguint` is the identity -/
theorem into_parts_from_biguint {s : Sign} {m : List Nat} (h : (⟨s, m⟩ : BigInt).Canon) :
    BigInt.intoParts (BigInt.fromBiguint s m) = (s, m) := by
  obtain ⟨_, hs⟩ := h
  simp only at hs
  unfold BigInt.fromBiguint BigInt.intoParts
  by_cases h1 : s = .nosign
  · have := hs.mp h1; subst this; subst h1; simp
  · have h2 : m ≠ [] := fun e => h1 (hs.mpr e)
    simp [h1, h2]

/-- `from_biguint ∘ into_parts` is the identity on canonical values -/
theorem from_biguint_into_parts {x : BigInt} (hx : x.Canon) :
    BigInt.fromBiguint (BigInt.intoParts x).1 (BigInt.intoParts x).2 = x := by
  rcases x with ⟨s, m⟩
  have := into_parts_from_biguint hx
  unfold BigInt.intoParts at this ⊢
  simp only at this ⊢
  generalize BigInt.fromBiguint s m = r at *
  rcases r with ⟨s', m'⟩
  simp only [Prod.mk.injEq] at this
  rw [this.1, this.2]

/-- inconsistent requests: `NoSign` with any magnitude is zero; any sign with a zero magnitude is zero -/
theorem from_biguint_inconsistent (s : Sign) (m : List Nat) :
    BigInt.fromBiguint .nosign m = BigInt.zero ∧ BigInt.fromBiguint s [] = BigInt.zero := by
  constructor
  · simp [BigInt.fromBiguint, BigInt.zero, BigUint.zero]
  · cases s <;> simp [BigInt.fromBiguint, BigInt.zero, BigUint.zero]

/-- in general `from_biguint(s, m)` is the canonical BigInt of `s · m` (also for inconsistent pairs) -/
theorem from_biguint_val (s : Sign) {m : List Nat} (h : Canon m) :
    BigInt.fromBiguint s m = BigInt.ofInt (Sign.toInt s * (val m : Int)) ∧
    (BigInt.fromBiguint s m).val = Sign.toInt s * (val m : Int) ∧ (BigInt.fromBiguint s m).Canon := by
  rw [fromBiguint_eq s h]
  exact ⟨rfl, bigint_ofInt_val _, bigint_ofInt_canon _⟩

/-! ## conversions between the two types succeed exactly for non-negative values -/

theorem bigint_to_biguint_spec {x : BigInt} (hx : x.Canon) :
    BigInt.toBiguint x = (if x.val < 0 then none else some (ofNat x.val.natAbs)) ∧
    BigInt.tryIntoBiguint x = (if x.val < 0 then none else some (ofNat x.val.natAbs)) := by
  have hm := bigint_canon_mag hx
  obtain ⟨h1, h2, h3⟩ := bigint_canon_sign hx
  rcases x with ⟨s, m⟩
  simp only at hm h1 h2 h3
  cases s with
  | nosign =>
    have hv := h2.mp rfl
    have hm0 : m = [] := by rw [hm, hv]; simp [ofNat_zero]
    subst hm0
    simp [BigInt.toBiguint, BigInt.tryIntoBiguint, BigUint.zero, BigInt.val, ofNat_zero]
  | plus =>
    have hv : ¬ BigInt.val ⟨.plus, m⟩ < 0 := by have := h3.mp rfl; omega
    simp only [BigInt.toBiguint, BigInt.tryIntoBiguint, BigUint.clone, if_neg hv, reduceCtorEq, if_false]
    rw [← hm]; exact ⟨rfl, rfl⟩
  | minus =>
    have hv : BigInt.val ⟨.minus, m⟩ < 0 := h1.mp rfl
    simp [BigInt.toBiguint, BigInt.tryIntoBiguint, hv]

theorem bigint_to_biguint_isSome {x : BigInt} (hx : x.Canon) :
    ((BigInt.toBiguint x).isSome = true ↔ 0 ≤ x.val) ∧ ((BigInt.tryIntoBiguint x).isSome = true ↔ 0 ≤ x.val) := by
  obtain ⟨e1, e2⟩ := bigint_to_biguint_spec hx
  rw [e1, e2]
  by_cases h : x.val < 0
  · simp [h]
  · simp [h]; omega

/-- `BigUint → BigInt` always succeeds with the same value (`to_bigint`, `From<BigUint>`) -/
theorem biguint_to_bigint_spec {a : List Nat} (ha : Canon a) :
    BigUint.toBigint a = some (BigInt.ofInt (val a)) ∧ Core.BigInt.fromU a = BigInt.ofInt (val a) := by
  rw [ofInt_natCast]
  unfold BigUint.toBigint Core.BigInt.fromU BigUint.clone
  by_cases hz : a = []
  · subst hz; simp [BigUint.isZero, BigInt.zero, BigUint.zero, val]
  · have h1 : ¬ (BigUint.isZero a = true) := by rw [isZero_iff]; exact hz
    have h2 : val a ≠ 0 := fun e => hz (canon_val_zero ha e)
    rw [if_neg h1, if_neg h1, if_neg h2, ← canon_eq_ofNat ha]
    exact ⟨rfl, rfl⟩

/-- the identity conversions -/
theorem to_self_spec (a : List Nat) (x : BigInt) :
    BigUint.toBiguint a = some a ∧ BigInt.toBigint x = some x := ⟨rfl, rfl⟩

/-! ## identity constants and predicates -/

theorem biguint_consts : BigUint.zero = ofNat 0 ∧ BigUint.default = ofNat 0 ∧ BigUint.one = ofNat 1 := by
  rw [ofNat_zero, ofNat_one]; exact ⟨rfl, rfl, rfl⟩

theorem bigint_consts :
    BigInt.zero = BigInt.ofInt 0 ∧ BigInt.default = BigInt.ofInt 0 ∧ BigInt.one = BigInt.ofInt 1 := by
  rw [ofInt_zero, ofInt_one]; exact ⟨rfl, rfl, rfl⟩

theorem consts_val : val BigUint.zero = 0 ∧ val BigUint.default = 0 ∧ val BigUint.one = 1 ∧
    BigInt.zero.val = 0 ∧ BigInt.default.val = 0 ∧ BigInt.one.val = 1 := by
  refine ⟨rfl, rfl, by simp [BigUint.one, val], rfl, rfl, by simp [BigInt.one, BigUint.one, BigInt.val, val]⟩

theorem biguint_is_zero_spec {a : List Nat} (ha : Canon a) : BigUint.isZero a = true ↔ val a = 0 := by
  rw [isZero_iff]; exact canon_eq_nil_iff ha

theorem biguint_is_one_spec {a : List Nat} (ha : Canon a) : BigUint.isOne a = true ↔ val a = 1 := by
  unfold BigUint.isOne
  rw [beq_iff_eq]
  constructor
  · intro h; subst h; simp [val]
  · intro h; exact canon_unique ha canon_one (by simp [val, h])

theorem bigint_is_zero_spec {x : BigInt} (hx : x.Canon) : Core.BigInt.isZero x = true ↔ x.val = 0 :=
  core_bigint_isZero_iff hx

theorem bigint_is_one_spec {x : BigInt} (hx : x.Canon) : BigInt.isOne x = true ↔ x.val = 1 := by
  constructor
  · intro h
    unfold BigInt.isOne BigUint.isOne at h
    simp only [Bool.and_eq_true, beq_iff_eq] at h
    rw [bigint_val_eq, h.1, h.2]; simp [Sign.toInt, val]
  · intro h
    have : x = BigInt.ofInt 1 := by rw [← h]; exact bigint_canon_eq_ofInt hx
    rw [this, ofInt_one]; rfl

/-- `set_zero` / `set_one` assign 0 / 1 whatever the target held -/
theorem set_zero_one_spec (a : List Nat) (x : BigInt) :
    BigUint.setZero a = ofNat 0 ∧ BigUint.setOne a = ofNat 1 ∧
    BigInt.setZero x = BigInt.ofInt 0 ∧ BigInt.setOne x = BigInt.ofInt 1 := by
  rw [ofNat_zero, ofNat_one, ofInt_zero, ofInt_one]
  exact ⟨rfl, rfl, rfl, rfl⟩

/-! ## the rule of signs -/

theorem sign_neg_table (s : Sign) : Sign.toInt s.neg = - Sign.toInt s ∧ s.neg = Sign.ofInt (- Sign.toInt s) := by
  cases s <;> decide

theorem sign_mul_table (s t : Sign) : Sign.toInt (s.mul t) = Sign.toInt s * Sign.toInt t ∧ s.mul t = Sign.ofInt (Sign.toInt s * Sign.toInt t) := by
  cases s <;> cases t <;> decide

theorem sign_ofInt_toInt (s : Sign) : Sign.ofInt (Sign.toInt s) = s := by cases s <;> decide

/-! ## non-vacuity -/
example : (⟨.minus, [0, 5]⟩ : BigInt).Canon ∧ BigInt.abs ⟨.minus, [0, 5]⟩ = ⟨.plus, [0, 5]⟩ ∧
    BigInt.signum ⟨.minus, [0, 5]⟩ = ⟨.minus, [1]⟩ := by decide
example : BigInt.absSub NB.Gen.P ⟨.plus, [5]⟩ ⟨.minus, [3]⟩ = .ok ⟨.plus, [8]⟩ ∧
    BigInt.absSub NB.Gen.P ⟨.minus, [3]⟩ ⟨.plus, [5]⟩ = .ok ⟨.nosign, []⟩ := by decide
example : BigInt.fromBiguint .nosign [7] = ⟨.nosign, []⟩ ∧ BigInt.fromBiguint .minus [] = ⟨.nosign, []⟩ := by decide

end NB
