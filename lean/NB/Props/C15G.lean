/-
  C15 (generic part) — soundness of the certified checker `NB.Asm.checkLoop` (NB.Model.AsmCheck),
  proved ONCE for every instruction list of the subset of NB.Model.AsmDefs, under the mini x86
  semantics of NB.Model.Asm.

    * `symStep_sound`   one instruction: the symbolic state keeps describing the concrete one and the
                        concrete step does not fault
    * `checkBody_sound` ONE ITERATION of an accepted body, started with `idx + w ≤ len a, len b`: no
                        fault, `b` untouched, `idx += w`, `size -= 1` with ZF from that `dec`, `a` and
                        CF are exactly the adc/sbb chain over `[idx, idx+w)`
    * `loop_spec`       any number `n ≥ 1` of iterations (induction)
    * `checkLoop_run`   the whole routine (`pre; L: body; jnz L; post`)
    * `checkLoop_sound` list level, as the Rust wrapper calls it: for every divisor `d ≥ w`
                        (`size /= d` in the wrapper), `Asm.call prog regs d a b size` does NOT FAULT
                        (every memory access of the run is in bounds, nothing is stored through `b`),
                        returns `idx = w * (size / d)`, the carry/borrow of the schoolbook chain
                        `adcZip`/`sbbZip` on that prefix and its digits, the rest of `a` unchanged.
  No program text occurs in this file; NB.Props.C15 instantiates it with the generated programs by
  two `by decide` facts.
-/
import NB.Lemmas.Asm
import NB.Model.AsmCheck
namespace NB.Asm
open NB

/-! ### the chain, generic in the digit operation -/

/-- the interpreter's digit operation selected by the checker's flag -/
def opOf (isSub : Bool) : Bool → Nat → Nat → Nat × Bool := if isSub then sbbI else adcI

def chainG (op : Bool → Nat → Nat → Nat × Bool) (f g : Nat → Nat) (c : Bool) (i : Nat) :
    Nat → (Nat → Nat) × Bool
  | 0 => (f, c)
  | n + 1 =>
    let r := chainG op f g c i n
    let o := op r.2 (f (i + n)) (g (i + n))
    (upd r.1 (i + n) o.1, o.2)

theorem chainG_adc (f g : Nat → Nat) (c : Bool) (i n : Nat) : chainG adcI f g c i n = chainAdd f g c i n := by
  induction n with
  | zero => rfl
  | succ n ih => simp only [chainG, chainAdd, ih]

theorem chainG_sbb (f g : Nat → Nat) (c : Bool) (i n : Nat) : chainG sbbI f g c i n = chainSub f g c i n := by
  induction n with
  | zero => rfl
  | succ n ih => simp only [chainG, chainSub, ih]

theorem chainG_outside (op) (f g : Nat → Nat) (c : Bool) (i n j : Nat) (h : j < i ∨ i + n ≤ j) :
    (chainG op f g c i n).1 j = f j := by
  induction n with
  | zero => rfl
  | succ n ih =>
    simp only [chainG]
    rw [upd_other _ _ (by omega)]
    exact ih (by omega)

/-- digit `j` after the chain: inside the window it is the result digit of its position -/
theorem chainG_val (op) (f g : Nat → Nat) (c : Bool) (i n p : Nat) (hp : p < n) :
    (chainG op f g c i n).1 (i + p) = (op (chainG op f g c i p).2 (f (i + p)) (g (i + p))).1 := by
  induction n with
  | zero => omega
  | succ n ih =>
    simp only [chainG]
    by_cases h : p = n
    · subst h; simp [upd]
    · rw [upd_other _ _ (by omega)]
      exact ih (by omega)

theorem chainG_add (op) (f g : Nat → Nat) (c : Bool) (i n m : Nat) :
    chainG op f g c i (n + m) =
      chainG op (chainG op f g c i n).1 g (chainG op f g c i n).2 (i + n) m := by
  induction m with
  | zero => rfl
  | succ m ih =>
    have e : n + (m + 1) = (n + m) + 1 := by omega
    rw [e]
    simp only [chainG]
    rw [ih]
    have h1 : (chainG op f g c i n).1 (i + n + m) = f (i + (n + m)) := by
      rw [chainG_outside _ _ _ _ _ _ _ (by omega)]; congr 1; omega
    have e2 : i + n + m = i + (n + m) := by omega
    rw [h1, e2]

/-! ### what the symbolic state means -/

/-- one iteration: digit operation, memories / CF / `idx` / `size` at the loop label, unroll factor -/
structure Ctx where
  op : Bool → Nat → Nat → Nat × Bool
  a0 : Nat → Nat
  b0 : Nat → Nat
  cf0 : Bool
  i : Nat
  n0 : Nat
  w : Nat

/-- carry entering chain position `t` -/
def Ctx.cy (X : Ctx) (t : Nat) : Bool := (chainG X.op X.a0 X.b0 X.cf0 X.i t).2
/-- result digit of chain position `t` -/
def Ctx.rs (X : Ctx) (t : Nat) : Nat := (X.op (X.cy t) (X.a0 (X.i + t)) (X.b0 (X.i + t))).1

theorem Ctx.cy_succ (X : Ctx) (t : Nat) :
    X.cy (t + 1) = (X.op (X.cy t) (X.a0 (X.i + t)) (X.b0 (X.i + t))).2 := rfl

/-- concrete register value `x` is described by the symbolic value -/
def Sat (X : Ctx) : SVal → Nat → Prop
  | .unk, _ => True
  | .idx c, x => x = X.i + c
  | .size0, x => x = X.n0
  | .size1, x => x = (X.n0 + B - 1) % B
  | .aDig t, x => x = X.a0 (X.i + t)
  | .bDig t, x => x = X.b0 (X.i + t)
  | .res t, x => x = X.rs t

/-- the symbolic state `σ` describes the concrete state `s` -/
structure Inv (X : Ctx) (σ : Sym) (s : St) : Prop where
  regs : ∀ r, Sat X (σ.regs r) (s.regs r)
  cf : ∀ t, σ.cf = .chain t → s.cf = X.cy t
  zf : σ.zfOk = true → s.zf = decide ((X.n0 + B - 1) % B = 0)
  b : s.b = X.b0
  wrT : ∀ p, σ.wr p = true → p < X.w ∧ s.a (X.i + p) = X.rs p
  wrF : ∀ p, σ.wr p = false → s.a (X.i + p) = X.a0 (X.i + p)
  out : ∀ j, (j < X.i ∨ X.i + X.w ≤ j) → s.a j = X.a0 j

theorem sat_upd {X : Ctx} {σr : Nat → SVal} {sr : Nat → Nat} (h : ∀ r, Sat X (σr r) (sr r))
    (r : Nat) {v : SVal} {x : Nat} (hv : Sat X v x) : ∀ r', Sat X (updS σr r v r') (upd sr r x r') := by
  intro r'
  unfold updS upd
  by_cases e : r' = r
  · simp only [e, if_true]; exact hv
  · simp only [e, if_false]; exact h r'

theorem sat_unk (X : Ctx) (x : Nat) : Sat X .unk x := trivial

section step
variable {X : Ctx} {R : Regs} {la lb : Nat} {σ σ' : Sym} {s : St}

theorem symAddr_sound {idxr off p : Nat} (h : symAddr σ X.w idxr off = some p) (hinv : Inv X σ s) :
    s.regs idxr + off = X.i + p ∧ p < X.w := by
  unfold symAddr at h
  have hs := hinv.regs idxr
  cases hr : σ.regs idxr <;> rw [hr] at h hs <;> simp only [reduceCtorEq] at h
  rename_i c
  split at h
  · rename_i hlt
    simp only [Option.some.injEq] at h
    simp only [Sat] at hs
    omega
  · simp at h

theorem symRead_sound {base idxr off : Nat} {v : SVal} (h : symRead R σ X.w base idxr off = some v)
    (hinv : Inv X σ s) (hla : X.i + X.w ≤ la) (hlb : X.i + X.w ≤ lb) :
    ∃ y, rd ⟨R.a, R.b, la, lb⟩ s base (s.regs idxr + off) = some y ∧ Sat X v y := by
  unfold symRead at h
  cases ha : symAddr σ X.w idxr off with
  | none => rw [ha] at h; simp at h
  | some p =>
    rw [ha] at h
    obtain ⟨e, hp⟩ := symAddr_sound ha hinv
    simp only at h
    rw [e]
    unfold rd
    by_cases hb1 : base = R.a
    · simp only [hb1, if_true, Option.some.injEq] at h ⊢
      have : X.i + p < la := by omega
      simp only [this, if_true]
      refine ⟨_, rfl, ?_⟩
      cases hw : σ.wr p
      · rw [hw] at h; simp only [Bool.false_eq_true, if_false] at h
        subst h; exact hinv.wrF p hw
      · rw [hw] at h; simp only [if_true] at h
        subst h; exact (hinv.wrT p hw).2
    · simp only [hb1, if_false] at h ⊢
      by_cases hb2 : base = R.b
      · simp only [hb2, if_true, Option.some.injEq] at h ⊢
        have : X.i + p < lb := by omega
        simp only [this, if_true]
        refine ⟨_, rfl, ?_⟩
        subst h
        simp only [Sat, hinv.b]
      · simp only [hb2, if_false] at h
        simp at h

/-- register write that touches no flag -/
theorem inv_setReg (hinv : Inv X σ s) (r : Nat) {v : SVal} {x : Nat} (hv : Sat X v x) :
    Inv X { σ with regs := updS σ.regs r v } { s with regs := upd s.regs r x } :=
  ⟨sat_upd hinv.regs r hv, hinv.cf, hinv.zf, hinv.b, hinv.wrT, hinv.wrF, hinv.out⟩

theorem symSet_sound {dst : Nat} {v : SVal} (h : symSet R σ dst v = some σ') (hinv : Inv X σ s)
    {x : Nat} (hv : Sat X v x) :
    ¬ (dst = R.a ∨ dst = R.b) ∧ Inv X σ' { s with regs := upd s.regs dst x } := by
  unfold symSet at h
  split at h
  · simp at h
  · rename_i hp
    simp only [Option.some.injEq] at h
    subst h
    exact ⟨hp, inv_setReg hinv dst hv⟩

/-- the chain step on the concrete side: `dst := op(cf, dst, y)` -/
theorem symChain_sound {isSub : Bool} {dst : Nat} {sv : SVal} {y : Nat}
    (hop : X.op = opOf isSub)
    (h : symChain isSub R σ dst sv = some σ') (hinv : Inv X σ s) (hy : Sat X sv y) (zf' : Bool) :
    ¬ (dst = R.a ∨ dst = R.b) ∧
    Inv X σ' { s with regs := upd s.regs dst (opOf isSub s.cf (s.regs dst) y).1,
                      cf := (opOf isSub s.cf (s.regs dst) y).2, zf := zf' } := by
  unfold symChain at h
  split at h
  · simp at h
  rename_i hp
  refine ⟨hp, ?_⟩
  cases hc : σ.cf with
  | clob => rw [hc] at h; simp at h
  | chain t =>
    rw [hc] at h
    simp only at h
    split at h
    · rename_i hcond
      simp only [Option.some.injEq] at h
      subst h
      have hcf := hinv.cf t hc
      have hd := hinv.regs dst
      -- the concrete operation is the chain operation of position t
      have key : opOf isSub s.cf (s.regs dst) y = X.op (X.cy t) (X.a0 (X.i + t)) (X.b0 (X.i + t)) := by
        rw [hop, hcf]
        rcases hcond with ⟨h1, h2⟩ | ⟨h0, h1, h2⟩
        · rw [h1] at hd; rw [h2] at hy
          simp only [Sat] at hd hy
          rw [hd, hy]
        · rw [h1] at hd; rw [h2] at hy
          simp only [Sat] at hd hy
          rw [hd, hy, h0]
          simp only [opOf, Bool.false_eq_true, if_false, adcI]
          rw [Nat.add_comm (X.b0 (X.i + t)) (X.a0 (X.i + t))]
      rw [key]
      refine ⟨sat_upd hinv.regs dst (by simp only [Sat, Ctx.rs]), ?_, ?_, hinv.b, hinv.wrT, hinv.wrF, hinv.out⟩
      · intro t' ht'
        simp only [SCF.chain.injEq] at ht'
        subst ht'
        exact (X.cy_succ t).symm
      · intro hz; simp at hz
    · simp at h

theorem doAdc_eq (k : Cfg) (s : St) (dst y : Nat) (hp : ¬ (dst = k.aReg ∨ dst = k.bReg)) :
    doAdc k s dst y = some { s with regs := upd s.regs dst (adcI s.cf (s.regs dst) y).1,
                                    cf := (adcI s.cf (s.regs dst) y).2,
                                    zf := decide ((adcI s.cf (s.regs dst) y).1 = 0) } := by
  unfold doAdc
  simp only [hp, if_false, adcI]
  rfl

theorem doSbb_eq (k : Cfg) (s : St) (dst y : Nat) (hp : ¬ (dst = k.aReg ∨ dst = k.bReg)) :
    doSbb k s dst y = some { s with regs := upd s.regs dst (sbbI s.cf (s.regs dst) y).1,
                                    cf := (sbbI s.cf (s.regs dst) y).2,
                                    zf := decide ((sbbI s.cf (s.regs dst) y).1 = 0) } := by
  unfold doSbb
  simp only [hp, if_false, sbbI]
  rfl

/-- register write together with a ZF write -/
theorem inv_setReg_zf (hinv : Inv X σ s) (r : Nat) {v : SVal} {x : Nat} (hv : Sat X v x) (z : Bool) :
    Inv X { σ with regs := updS σ.regs r v, zfOk := false } { s with regs := upd s.regs r x, zf := z } :=
  ⟨sat_upd hinv.regs r hv, hinv.cf, fun hz => by simp at hz, hinv.b, hinv.wrT, hinv.wrF, hinv.out⟩

/-- register write together with a CF and ZF write -/
theorem inv_setReg_clob (hinv : Inv X σ s) (r : Nat) {v : SVal} {x : Nat} (hv : Sat X v x) (c z : Bool) :
    Inv X { σ with regs := updS σ.regs r v, cf := .clob, zfOk := false }
          { s with regs := upd s.regs r x, cf := c, zf := z } :=
  ⟨sat_upd hinv.regs r hv, fun t ht => by simp at ht, fun hz => by simp at hz, hinv.b, hinv.wrT, hinv.wrF, hinv.out⟩

/-- ONE INSTRUCTION: if the checker accepts it, the interpreter does not fault and the symbolic
    state still describes the concrete one -/
theorem symStep_sound {isSub : Bool} {ins : Instr} (hop : X.op = opOf isSub)
    (hla : X.i + X.w ≤ la) (hlb : X.i + X.w ≤ lb) (hB : la < B)
    (h : symStep isSub R X.w ins σ = some σ') (hinv : Inv X σ s) :
    ∃ s', step ⟨R.a, R.b, la, lb⟩ ins s = some s' ∧ Inv X σ' s' := by
  cases ins with
  | clc =>
    simp only [symStep, Option.some.injEq] at h
    subst h
    exact ⟨_, rfl, ⟨hinv.regs, fun t ht => by simp at ht, hinv.zf, hinv.b, hinv.wrT, hinv.wrF, hinv.out⟩⟩
  | label n => simp [symStep] at h
  | jnz n => simp [symStep] at h
  | loadn _ _ _ => simp [symStep] at h
  | storen _ _ _ => simp [symStep] at h
  | adcmn _ _ _ => simp [symStep] at h
  | sbbmn _ _ _ => simp [symStep] at h
  | load dst base idx off =>
    simp only [symStep] at h
    cases hr : symRead R σ X.w base idx off with
    | none => rw [hr] at h; simp at h
    | some v =>
      rw [hr] at h
      simp only at h
      obtain ⟨y, hy, hsat⟩ := symRead_sound (la := la) (lb := lb) hr hinv hla hlb
      obtain ⟨hp, hinv'⟩ := symSet_sound h hinv hsat
      refine ⟨_, ?_, hinv'⟩
      simp only [step, doLoad, hp, if_false, hy]
  | store base idx off src =>
    simp only [symStep] at h
    split at h
    · rename_i hb
      cases ha : symAddr σ X.w idx off with
      | none => rw [ha] at h; simp at h
      | some p =>
        rw [ha] at h
        simp only at h
        split at h
        · rename_i hsrc
          simp only [Option.some.injEq] at h
          subst h
          obtain ⟨e, hp⟩ := symAddr_sound ha hinv
          have hlt : X.i + p < la := by omega
          refine ⟨{ s with a := upd s.a (X.i + p) (s.regs src) }, ?_, ?_⟩
          · simp only [step, doStore, hb, if_true, e, hlt]
          · have hs := hinv.regs src
            rw [hsrc] at hs
            simp only [Sat] at hs
            refine ⟨hinv.regs, hinv.cf, hinv.zf, hinv.b, ?_, ?_, ?_⟩
            · intro q hq
              by_cases e : q = p
              · subst e; exact ⟨hp, by simp [upd, hs]⟩
              · simp only [updB, e, if_false] at hq
                obtain ⟨h1, h2⟩ := hinv.wrT q hq
                refine ⟨h1, ?_⟩
                show upd s.a (X.i + p) (s.regs src) (X.i + q) = _
                rw [upd_other _ _ (by omega)]
                exact h2
            · intro q hq
              by_cases e : q = p
              · simp [updB, e] at hq
              · simp only [updB, e, if_false] at hq
                show upd s.a (X.i + p) (s.regs src) (X.i + q) = _
                rw [upd_other _ _ (by omega)]
                exact hinv.wrF q hq
            · intro j hj
              show upd s.a (X.i + p) (s.regs src) j = _
              rw [upd_other _ _ (by omega)]
              exact hinv.out j hj
        · simp at h
    · simp at h
  | adc dst src =>
    simp only [symStep] at h
    cases isSub with
    | true => simp at h
    | false =>
      simp only [Bool.false_eq_true, if_false] at h
      obtain ⟨hp, hinv'⟩ := symChain_sound hop h hinv (hinv.regs src)
        (decide ((adcI s.cf (s.regs dst) (s.regs src)).1 = 0))
      refine ⟨_, ?_, hinv'⟩
      simp only [step]
      rw [doAdc_eq _ _ _ _ hp]
      rfl
  | sbb dst src =>
    simp only [symStep] at h
    cases isSub with
    | false => simp at h
    | true =>
      simp only [if_true] at h
      obtain ⟨hp, hinv'⟩ := symChain_sound hop h hinv (hinv.regs src)
        (decide ((sbbI s.cf (s.regs dst) (s.regs src)).1 = 0))
      refine ⟨_, ?_, hinv'⟩
      simp only [step]
      rw [doSbb_eq _ _ _ _ hp]
      rfl
  | adcm dst base idx off =>
    simp only [symStep] at h
    cases isSub with
    | true => simp at h
    | false =>
      simp only [Bool.false_eq_true, if_false] at h
      cases hr : symRead R σ X.w base idx off with
      | none => rw [hr] at h; simp at h
      | some v =>
        rw [hr] at h
        simp only at h
        obtain ⟨y, hy, hsat⟩ := symRead_sound (la := la) (lb := lb) hr hinv hla hlb
        obtain ⟨hp, hinv'⟩ := symChain_sound hop h hinv hsat (decide ((adcI s.cf (s.regs dst) y).1 = 0))
        refine ⟨_, ?_, hinv'⟩
        simp only [step, hy]
        rw [doAdc_eq _ _ _ _ hp]
        rfl
  | sbbm dst base idx off =>
    simp only [symStep] at h
    cases isSub with
    | false => simp at h
    | true =>
      simp only [if_true] at h
      cases hr : symRead R σ X.w base idx off with
      | none => rw [hr] at h; simp at h
      | some v =>
        rw [hr] at h
        simp only at h
        obtain ⟨y, hy, hsat⟩ := symRead_sound (la := la) (lb := lb) hr hinv hla hlb
        obtain ⟨hp, hinv'⟩ := symChain_sound hop h hinv hsat (decide ((sbbI s.cf (s.regs dst) y).1 = 0))
        refine ⟨_, ?_, hinv'⟩
        simp only [step, hy]
        rw [doSbb_eq _ _ _ _ hp]
        rfl
  | inc r =>
    simp only [symStep] at h
    split at h
    · simp at h
    rename_i hp
    have hstep : step ⟨R.a, R.b, la, lb⟩ (.inc r) s =
        some { s with regs := upd s.regs r ((s.regs r + 1) % B), zf := decide ((s.regs r + 1) % B = 0) } := by
      simp only [step, hp, if_false]
    refine ⟨_, hstep, ?_⟩
    split at h
    · rename_i c hc
      split at h
      · rename_i hcw
        simp only [Option.some.injEq] at h
        subst h
        have hs := hinv.regs r
        rw [hc] at hs
        simp only [Sat] at hs
        refine inv_setReg_zf hinv r ?_ _
        simp only [Sat, hs]
        rw [Nat.mod_eq_of_lt (by omega)]
        omega
      · simp at h
    · simp only [Option.some.injEq] at h
      subst h
      exact inv_setReg_zf hinv r (sat_unk X _) _
  | dec r =>
    simp only [symStep] at h
    split at h
    · simp at h
    rename_i hp
    have hstep : step ⟨R.a, R.b, la, lb⟩ (.dec r) s =
        some { s with regs := upd s.regs r ((s.regs r + B - 1) % B), zf := decide ((s.regs r + B - 1) % B = 0) } := by
      simp only [step, hp, if_false]
    refine ⟨_, hstep, ?_⟩
    split at h
    · rename_i hc
      simp only [Option.some.injEq] at h
      subst h
      have hs := hinv.regs r
      rw [hc] at hs
      simp only [Sat] at hs
      refine ⟨sat_upd hinv.regs r (by simp only [Sat, hs]), hinv.cf, ?_, hinv.b, hinv.wrT, hinv.wrF, hinv.out⟩
      intro _
      simp only [hs]
    · simp only [Option.some.injEq] at h
      subst h
      exact inv_setReg_zf hinv r (sat_unk X _) _
  | lea dst src imm =>
    simp only [symStep] at h
    split at h
    · simp at h
    rename_i hp
    have hstep : step ⟨R.a, R.b, la, lb⟩ (.lea dst src imm) s =
        some { s with regs := upd s.regs dst ((s.regs src + imm) % B) } := by
      simp only [step, hp, if_false]
    refine ⟨_, hstep, ?_⟩
    split at h
    · rename_i c hc
      split at h
      · rename_i hcw
        simp only [Option.some.injEq] at h
        subst h
        have hs := hinv.regs src
        rw [hc] at hs
        simp only [Sat] at hs
        refine inv_setReg hinv dst ?_
        simp only [Sat, hs]
        rw [Nat.mod_eq_of_lt (by omega)]
        omega
      · simp at h
    · simp only [Option.some.injEq] at h
      subst h
      exact inv_setReg hinv dst (sat_unk X _)
  | setc r =>
    simp only [symStep] at h
    obtain ⟨hp, hinv'⟩ := symSet_sound h hinv (sat_unk X (b2n s.cf))
    refine ⟨_, ?_, hinv'⟩
    simp only [step, hp, if_false]
  | addi r imm =>
    simp only [symStep] at h
    split at h
    · simp at h
    rename_i hp
    simp only [Option.some.injEq] at h
    subst h
    have hstep : step ⟨R.a, R.b, la, lb⟩ (.addi r imm) s =
        some { s with regs := upd s.regs r ((s.regs r + imm % B) % B), cf := decide (B ≤ s.regs r + imm % B),
                      zf := decide ((s.regs r + imm % B) % B = 0) } := by
      simp only [step, hp, if_false]
    exact ⟨_, hstep, inv_setReg_clob hinv r (sat_unk X _) _ _⟩
  | subi r imm =>
    simp only [symStep] at h
    split at h
    · simp at h
    rename_i hp
    simp only [Option.some.injEq] at h
    subst h
    have hstep : step ⟨R.a, R.b, la, lb⟩ (.subi r imm) s =
        some { s with regs := upd s.regs r (if imm % B ≤ s.regs r then s.regs r - imm % B else s.regs r + B - imm % B),
                      cf := decide (s.regs r < imm % B),
                      zf := decide ((if imm % B ≤ s.regs r then s.regs r - imm % B else s.regs r + B - imm % B) = 0) } := by
      simp only [step, hp, if_false]
    exact ⟨_, hstep, inv_setReg_clob hinv r (sat_unk X _) _ _⟩

end step

/-! ### one iteration of an accepted body -/

/-- what one iteration / the whole loop must establish about the final state -/
structure BodyPost (s' : St) (b : Nat → Nat) (ch : (Nat → Nat) × Bool) (idx' size' : Nat) (rIdx rSize : Nat) : Prop where
  cf : s'.cf = ch.2
  a : s'.a = ch.1
  b : s'.b = b
  zf : s'.zf = decide (s'.regs rSize = 0)
  idx : s'.regs rIdx = idx'
  size : s'.regs rSize = size'

theorem symExec_sound {X : Ctx} {R : Regs} {la lb : Nat} {isSub : Bool} (hop : X.op = opOf isSub)
    (hla : X.i + X.w ≤ la) (hlb : X.i + X.w ≤ lb) (hB : la < B) :
    ∀ (body : List Instr) (σ σ' : Sym) (s : St), symExec isSub R X.w body σ = some σ' → Inv X σ s →
      ∃ s', exec ⟨R.a, R.b, la, lb⟩ body s = some s' ∧ Inv X σ' s'
  | [], σ, σ', s, h, hinv => by
    simp only [symExec, Option.some.injEq] at h
    subst h
    exact ⟨s, rfl, hinv⟩
  | i :: is, σ, σ', s, h, hinv => by
    simp only [symExec] at h
    cases h1 : symStep isSub R X.w i σ with
    | none => rw [h1] at h; simp at h
    | some σ1 =>
      rw [h1] at h
      simp only at h
      obtain ⟨s1, hs1, hinv1⟩ := symStep_sound (la := la) (lb := lb) hop hla hlb hB h1 hinv
      obtain ⟨s2, hs2, hinv2⟩ := symExec_sound hop hla hlb hB is σ1 σ' s1 h hinv1
      exact ⟨s2, by rw [exec_cons, hs1]; exact hs2, hinv2⟩

/-- the symbolic state at the loop label describes every concrete state -/
theorem inv_sym0 (op) (R : Regs) (w : Nat) (regs : Nat → Nat) (cf zf : Bool) (a b : Nat → Nat) :
    Inv ⟨op, a, b, cf, regs R.idx, regs R.size, w⟩ (sym0 R) ⟨regs, cf, zf, a, b⟩ := by
  refine ⟨?_, ?_, ?_, rfl, ?_, ?_, ?_⟩
  · intro r
    simp only [sym0, updS]
    by_cases h1 : r = R.idx
    · simp only [h1, if_true, Sat, Nat.add_zero]
    · simp only [h1, if_false]
      by_cases h2 : r = R.size
      · simp only [h2, if_true, Sat]
      · simp only [h2, if_false, Sat]
  · intro t ht
    simp only [sym0, SCF.chain.injEq] at ht
    subst ht
    rfl
  · intro hz; simp [sym0] at hz
  · intro p hp; simp [sym0] at hp
  · intro p _; rfl
  · intro j _; rfl

/-- ONE ITERATION of a body accepted by the checker: no fault, `b` untouched, `idx += w`,
    `size -= 1` with ZF from that `dec`, `a` and CF are exactly the chain over `[idx, idx+w)` -/
theorem checkBody_sound {isSub : Bool} {R : Regs} {w : Nat} {body : List Instr} {σ : Sym}
    (hex : symExec isSub R w body (sym0 R) = some σ) (hfin : symFinal R w σ = true)
    (la lb : Nat) (regs : Nat → Nat) (cf zf : Bool) (a b : Nat → Nat) (i : Nat)
    (hi : regs R.idx = i) (hla : i + w ≤ la) (hlb : i + w ≤ lb) (hB : la < B) :
    ∃ s', exec ⟨R.a, R.b, la, lb⟩ body ⟨regs, cf, zf, a, b⟩ = some s' ∧
      BodyPost s' b (chainG (opOf isSub) a b cf i w) (i + w) ((regs R.size + B - 1) % B) R.idx R.size := by
  subst hi
  let X : Ctx := ⟨opOf isSub, a, b, cf, regs R.idx, regs R.size, w⟩
  obtain ⟨s', he, hinv⟩ := symExec_sound (X := X) (R := R) (la := la) (lb := lb) (isSub := isSub) rfl hla hlb hB
    body (sym0 R) σ ⟨regs, cf, zf, a, b⟩ hex (inv_sym0 _ R w regs cf zf a b)
  refine ⟨s', he, ?_⟩
  simp only [symFinal, Bool.and_eq_true, decide_eq_true_eq, List.all_eq_true, List.mem_range] at hfin
  obtain ⟨⟨⟨⟨f1, f2⟩, f3⟩, f4⟩, f5⟩ := hfin
  have hsz : s'.regs R.size = (regs R.size + B - 1) % B := by
    have := hinv.regs R.size
    rw [f2] at this
    exact this
  refine ⟨hinv.cf w f3, ?_, hinv.b, ?_, ?_, hsz⟩
  · funext j
    by_cases hj : j < regs R.idx ∨ regs R.idx + w ≤ j
    · rw [chainG_outside _ _ _ _ _ _ _ hj]
      exact hinv.out j hj
    · obtain ⟨p, rfl⟩ : ∃ p, j = regs R.idx + p := ⟨j - regs R.idx, by omega⟩
      have hp : p < w := by omega
      rw [chainG_val _ _ _ _ _ _ _ hp]
      exact (hinv.wrT p (f5 p hp)).2
  · rw [hinv.zf f4, hsz]
  · have := hinv.regs R.idx
    rw [f1] at this
    exact this

/-! ### the loop -/

/-- THE LOOP, any number of iterations `n ≥ 1`: by induction over `n` from a one-iteration spec -/
theorem loop_spec (k : Cfg) (body : List Instr) (rIdx rSize w : Nat)
    (chain : (Nat → Nat) → (Nat → Nat) → Bool → Nat → Nat → (Nat → Nat) × Bool)
    (hadd : ∀ f g c i n m, chain f g c i (n + m) = chain (chain f g c i n).1 g (chain f g c i n).2 (i + n) m)
    (hbody : ∀ regs cf zf a b i, regs rIdx = i → i + w ≤ k.la → i + w ≤ k.lb →
      ∃ s', exec k body ⟨regs, cf, zf, a, b⟩ = some s' ∧
        BodyPost s' b (chain a b cf i w) (i + w) ((regs rSize + B - 1) % B) rIdx rSize) :
    ∀ n, 1 ≤ n → n < B → ∀ regs cf zf a b i, regs rIdx = i → regs rSize = n →
      i + w * n ≤ k.la → i + w * n ≤ k.lb → ∀ fuel, n ≤ fuel →
      ∃ s', loop k body fuel ⟨regs, cf, zf, a, b⟩ = some s' ∧
        BodyPost s' b (chain a b cf i (w * n)) (i + w * n) 0 rIdx rSize := by
  intro n
  induction n with
  | zero => intro h; omega
  | succ n ih =>
    intro _ hnB regs cf zf a b i hi hsz hla hlb fuel hfuel
    obtain ⟨fuel', rfl⟩ : ∃ f, fuel = f + 1 := ⟨fuel - 1, by omega⟩
    have hw : w * (n + 1) = w + w * n := by rw [Nat.mul_succ, Nat.add_comm]
    obtain ⟨s1, he, hp⟩ := hbody regs cf zf a b i hi (by rw [hw] at hla; omega) (by rw [hw] at hlb; omega)
    simp only [loop, he]
    have hs1size : s1.regs rSize = n := by
      rw [hp.size, hsz]
      have : n + 1 + B - 1 = n + B := by omega
      rw [this, Nat.add_mod_right, Nat.mod_eq_of_lt (by omega)]
    by_cases hn0 : n = 0
    · subst hn0
      have hz : s1.zf = true := by rw [hp.zf, hs1size]; rfl
      simp only [hz, if_true]
      refine ⟨s1, rfl, ?_⟩
      have e : w * (0 + 1) = w := by omega
      rw [e]
      exact ⟨hp.cf, hp.a, hp.b, hp.zf, hp.idx, hs1size⟩
    · have hz : s1.zf = false := by rw [hp.zf, hs1size]; simp [hn0]
      simp only [hz]
      obtain ⟨regs1, cf1, zf1, a1, b1⟩ := s1
      simp only at hp hs1size
      have hb1 : b1 = b := hp.b
      subst hb1
      obtain ⟨s2, he2, hp2⟩ := ih (by omega) (by omega) regs1 cf1 zf1 a1 b1 (i + w) hp.idx hs1size
        (by rw [hw] at hla; omega) (by rw [hw] at hlb; omega) fuel' (by omega)
      refine ⟨s2, by simpa using he2, ?_⟩
      have hc := hadd a b1 cf i w (w * n)
      rw [hw, hc]
      have e1 : a1 = (chain a b1 cf i w).1 := hp.a
      have e2 : cf1 = (chain a b1 cf i w).2 := hp.cf
      rw [← e1, ← e2]
      have e3 : i + (w + w * n) = i + w + w * n := by omega
      rw [e3]
      exact hp2

/-! ### prologue, epilogue, the whole routine -/

theorem exec_allClc (k : Cfg) (regs : Nat → Nat) (zf : Bool) (a b : Nat → Nat) :
    ∀ l : List Instr, (l.all fun i => i == Instr.clc) = true →
      exec k l ⟨regs, false, zf, a, b⟩ = some ⟨regs, false, zf, a, b⟩
  | [], _ => rfl
  | i :: is, h => by
    simp only [List.all_cons, Bool.and_eq_true, beq_iff_eq] at h
    rw [h.1, exec_clc]
    exact exec_allClc k regs zf a b is h.2

/-- an accepted prologue only clears CF -/
theorem checkPre_sound (k : Cfg) (regs : Nat → Nat) (cf zf : Bool) (a b : Nat → Nat) (pre : List Instr)
    (h : checkPre pre = true) : exec k pre ⟨regs, cf, zf, a, b⟩ = some ⟨regs, false, zf, a, b⟩ := by
  cases pre with
  | nil => simp [checkPre] at h
  | cons i is =>
    simp only [checkPre, List.all_cons, Bool.and_eq_true, beq_iff_eq] at h
    rw [h.1, exec_clc]
    exact exec_allClc k regs zf a b is h.2

/-- an accepted epilogue puts the loop's final CF into `c` and leaves `idx` and the memories alone -/
theorem checkPost_sound (R : Regs) (la lb : Nat) (C : Bool) :
    ∀ (post : List Instr) (live cSet : Bool) (s : St), checkPost R post live cSet = true →
      (live = true → s.cf = C) → (cSet = true → s.regs R.c = b2n C) →
      ∃ s', exec ⟨R.a, R.b, la, lb⟩ post s = some s' ∧ s'.regs R.idx = s.regs R.idx ∧
        s'.regs R.c = b2n C ∧ s'.a = s.a ∧ s'.b = s.b
  | [], live, cSet, s, h, _, hc => by
    simp only [checkPost] at h
    exact ⟨s, rfl, rfl, hc h, rfl, rfl⟩
  | i :: is, live, cSet, s, h, hl, hc => by
    cases i with
    | clc =>
      simp only [checkPost] at h
      obtain ⟨s', he, h1, h2, h3, h4⟩ := checkPost_sound R la lb C is false cSet { s with cf := false } h
        (fun e => by simp at e) hc
      exact ⟨s', by rw [exec_cons]; exact he, h1, h2, h3, h4⟩
    | setc r =>
      simp only [checkPost] at h
      split at h
      · simp at h
      rename_i hr
      have hpa : ¬ (r = R.a ∨ r = R.b) := fun e => hr (by rcases e with e | e <;> simp [e])
      have hri : R.idx ≠ r := fun e => hr (by simp [e])
      have hstep : step ⟨R.a, R.b, la, lb⟩ (.setc r) s = some { s with regs := upd s.regs r (b2n s.cf) } := by
        simp only [step, hpa, if_false]
      split at h
      · rename_i hrc
        split at h
        · rename_i hlive
          obtain ⟨s', he, h1, h2, h3, h4⟩ := checkPost_sound R la lb C is live true
            { s with regs := upd s.regs r (b2n s.cf) } h hl
            (fun _ => by show upd s.regs r (b2n s.cf) R.c = _; rw [hrc, upd_same, hl hlive])
          refine ⟨s', by rw [exec_cons, hstep]; exact he, ?_, h2, h3, h4⟩
          rw [h1]
          exact upd_other _ _ hri
        · simp at h
      · rename_i hrc
        obtain ⟨s', he, h1, h2, h3, h4⟩ := checkPost_sound R la lb C is live cSet
          { s with regs := upd s.regs r (b2n s.cf) } h hl
          (fun e => by show upd s.regs r (b2n s.cf) R.c = _; rw [upd_other _ _ (fun e' => hrc e'.symm)]; exact hc e)
        refine ⟨s', by rw [exec_cons, hstep]; exact he, ?_, h2, h3, h4⟩
        rw [h1]
        exact upd_other _ _ hri
    | _ => simp [checkPost] at h

/-- what an accepted program consists of -/
theorem checkLoop_inv {isSub : Bool} {prog : List Instr} {R : Regs} {nregs w : Nat}
    (h : checkLoop isSub prog R nregs = some w) :
    ∃ l σ, splitLoop prog = some l ∧ regsDistinct R = true ∧ 0 < w ∧ checkPre l.pre = true ∧
      checkPost R l.post true false = true ∧ symExec isSub R w l.body (sym0 R) = some σ ∧
      symFinal R w σ = true := by
  unfold checkLoop at h
  cases hs : splitLoop prog with
  | none => rw [hs] at h; simp at h
  | some l =>
    rw [hs] at h
    simp only at h
    split at h
    · simp at h
    rename_i h1
    split at h
    · simp at h
    rename_i h2
    split at h
    · simp at h
    rename_i h3
    cases he : symExec isSub R (chainLen l.body) l.body (sym0 R) with
    | none => rw [he] at h; simp at h
    | some σ =>
      rw [he] at h
      simp only at h
      split at h
      · rename_i h4
        simp only [Option.some.injEq] at h
        subst h
        simp only [Bool.not_eq_true', Bool.not_eq_false, Bool.and_eq_true, decide_eq_true_eq] at h1 h2 h3
        exact ⟨l, σ, rfl, h1.1.1.1, h1.2, h2, h3, he, h4⟩
      · simp at h

theorem checkLoop_pos {isSub : Bool} {prog : List Instr} {R : Regs} {nregs w : Nat}
    (h : checkLoop isSub prog R nregs = some w) : 0 < w := by
  obtain ⟨_, _, _, _, hw, _⟩ := checkLoop_inv h
  exact hw

theorem regsDistinct_idx_size {R : Regs} (h : regsDistinct R = true) : R.idx ≠ R.size := by
  simp only [regsDistinct, decide_eq_true_eq] at h
  exact h.2.1

/-- THE WHOLE ROUTINE of an accepted program: `n ≥ 1` iterations with `w*n` digits available behind
    both pointers, ANY initial flags and scratch registers: no fault, `b` untouched, `a` = chain on
    `[0, w*n)` (nothing outside is written), returned `idx = w*n`, returned `c` = final carry -/
theorem checkLoop_run {isSub : Bool} {prog : List Instr} {R : Regs} {nregs w : Nat}
    (h : checkLoop isSub prog R nregs = some w)
    (la lb n : Nat) (hn : 1 ≤ n) (hnB : n < B) (hB : la < B) (hla : w * n ≤ la) (hlb : w * n ≤ lb)
    (regs : Nat → Nat) (cf zf : Bool) (a b : Nat → Nat) (hidx : regs R.idx = 0) (hsize : regs R.size = n) :
    ∃ s', run ⟨R.a, R.b, la, lb⟩ prog (n + 1) ⟨regs, cf, zf, a, b⟩ = some s' ∧
      s'.a = (chainG (opOf isSub) a b false 0 (w * n)).1 ∧ s'.b = b ∧
      s'.regs R.idx = w * n ∧
      s'.regs R.c = b2n (chainG (opOf isSub) a b false 0 (w * n)).2 := by
  obtain ⟨l, σ, hs, hd, _, hpre, hpost, hex, hfin⟩ := checkLoop_inv h
  unfold run
  rw [hs]
  simp only
  rw [checkPre_sound _ regs cf zf a b l.pre hpre]
  simp only
  obtain ⟨s2, he, hp⟩ := loop_spec ⟨R.a, R.b, la, lb⟩ l.body R.idx R.size w (chainG (opOf isSub))
    (chainG_add (opOf isSub))
    (fun regs cf zf a b i hi h1 h2 =>
      checkBody_sound hex hfin la lb regs cf zf a b i hi h1 h2 hB)
    n hn hnB regs false zf a b 0 hidx hsize (by simpa using hla) (by simpa using hlb) (n + 1) (by omega)
  rw [he]
  simp only
  obtain ⟨s3, he3, h1, h2, h3, h4⟩ := checkPost_sound R la lb (chainG (opOf isSub) a b false 0 (w * n)).2
    l.post true false s2 hpost (fun _ => hp.cf) (fun e => by simp at e)
  refine ⟨s3, he3, ?_, ?_, ?_, h2⟩
  · rw [h3]; exact hp.a
  · rw [h4]; exact hp.b
  · rw [h1]
    have := hp.idx
    simpa using this

/-! ### list level: the routine computes exactly the `adcZip` / `sbbZip` chain (C01 tier B) -/

theorem range_map_memOf (l : List Nat) : (List.range l.length).map (memOf l) = l := by
  apply List.ext_getElem
  · simp
  · intro i h1 h2
    simp only [List.getElem_map, List.getElem_range]
    exact memOf_lt (by simpa using h2)

theorem map_upd_range (f : Nat → Nat) (len n v : Nat) :
    (List.range len).map (upd f n v) = ((List.range len).map f).set n v := by
  apply List.ext_getElem
  · simp
  · intro i h1 h2
    simp only [List.getElem_map, List.getElem_range, List.getElem_set, upd]
    by_cases h : i = n
    · simp [h]
    · have : ¬ n = i := fun e => h e.symm
      simp [h, this]

theorem adcI_fst (c : Bool) (x y : Nat) : (adcI c x y).1 = (adc (b2n c) x y).1 := rfl
theorem adcI_snd (c : Bool) {x y : Nat} (hx : x < B) (hy : y < B) : b2n (adcI c x y).2 = (adc (b2n c) x y).2 := by
  unfold adcI adc b2n
  simp only
  have hc : (if c then 1 else 0 : Nat) ≤ 1 := by split <;> omega
  by_cases h : B ≤ x + y + (if c then 1 else 0)
  · simp only [h, decide_true, if_true]
    have : (x + y + if c then 1 else 0) / B = 1 := by
      apply Nat.div_eq_of_lt_le <;> omega
    omega
  · simp only [h, decide_false]
    have : (x + y + if c then 1 else 0) / B = 0 := Nat.div_eq_of_lt (by omega)
    simp [this]

theorem sbbI_fst (c : Bool) (x y : Nat) : (sbbI c x y).1 = (sbb (b2n c) x y).1 := by
  unfold sbbI sbb; split <;> rfl
theorem sbbI_snd (c : Bool) (x y : Nat) : b2n (sbbI c x y).2 = (sbb (b2n c) x y).2 := by
  unfold sbbI sbb b2n
  by_cases h : y + (if c then 1 else 0) ≤ x
  · have : ¬ x < y + (if c then 1 else 0) := by omega
    simp [h, this]
  · have : x < y + (if c then 1 else 0) := by omega
    simp [h, this]

theorem take_succ_getElem (l : List Nat) (n : Nat) (h : n < l.length) : l.take (n + 1) = l.take n ++ [l[n]] := by
  rw [List.take_succ_eq_append_getElem h]

/-- the memory-function chain on two lists is the list chain `adcZip` on the first `n` digits -/
theorem chainAdd_list (a b : List Nat) (c : Bool) (n : Nat) (hna : n ≤ a.length) (hnb : n ≤ b.length)
    (ha : DigitsOk a) (hb : DigitsOk b) :
    (List.range a.length).map (chainAdd (memOf a) (memOf b) c 0 n).1 =
        (adcZip (b2n c) (a.take n) (b.take n)).1 ++ a.drop n ∧
    b2n (chainAdd (memOf a) (memOf b) c 0 n).2 = (adcZip (b2n c) (a.take n) (b.take n)).2 := by
  induction n with
  | zero => simp [chainAdd, adcZip, range_map_memOf]
  | succ n ih =>
    obtain ⟨ih1, ih2⟩ := ih (by omega) (by omega)
    have hla : n < a.length := by omega
    have hlb : n < b.length := by omega
    have htl : (a.take n).length = (b.take n).length := by simp [List.length_take]; omega
    have hz := adcZip_append (a.take n) (b.take n) [a[n]] [b[n]] (b2n c) htl
    rw [take_succ_getElem a n hla, take_succ_getElem b n hlb, hz]
    simp only [chainAdd, Nat.zero_add]
    have hzl : (adcZip (b2n c) (a.take n) (b.take n)).1.length = n := by
      have hc : b2n c ≤ 1 := by unfold b2n; split <;> omega
      have := (adcZip_spec (a.take n) (b.take n) (b2n c) htl (ha.take _) (hb.take _) hc).2.1
      rw [this]; simp [List.length_take]; omega
    have hma : memOf a n = a[n] := memOf_lt hla
    have hmb : memOf b n = b[n] := memOf_lt hlb
    have han : a[n] < B := ha _ (List.getElem_mem hla)
    have hbn : b[n] < B := hb _ (List.getElem_mem hlb)
    rw [hma, hmb]
    constructor
    · rw [map_upd_range, ih1]
      simp only [adcZip]
      rw [List.set_append_right _ _ (by omega), hzl, Nat.sub_self, adcI_fst, ih2]
      have hd : a.drop n = a[n] :: a.drop (n + 1) := List.drop_eq_getElem_cons hla
      rw [hd, List.set_cons_zero, List.append_assoc]
      rfl
    · simp only [adcZip]
      rw [adcI_snd _ han hbn, ih2]

theorem chainSub_list (a b : List Nat) (c : Bool) (n : Nat) (hna : n ≤ a.length) (hnb : n ≤ b.length)
    (ha : DigitsOk a) (hb : DigitsOk b) :
    (List.range a.length).map (chainSub (memOf a) (memOf b) c 0 n).1 =
        (sbbZip (b2n c) (a.take n) (b.take n)).1 ++ a.drop n ∧
    b2n (chainSub (memOf a) (memOf b) c 0 n).2 = (sbbZip (b2n c) (a.take n) (b.take n)).2 := by
  induction n with
  | zero => simp [chainSub, sbbZip, range_map_memOf]
  | succ n ih =>
    obtain ⟨ih1, ih2⟩ := ih (by omega) (by omega)
    have hla : n < a.length := by omega
    have hlb : n < b.length := by omega
    have htl : (a.take n).length = (b.take n).length := by simp [List.length_take]; omega
    have hz := sbbZip_append (a.take n) (b.take n) [a[n]] [b[n]] (b2n c) htl
    rw [take_succ_getElem a n hla, take_succ_getElem b n hlb, hz]
    simp only [chainSub, Nat.zero_add]
    have hzl : (sbbZip (b2n c) (a.take n) (b.take n)).1.length = n := by
      have hc : b2n c ≤ 1 := by unfold b2n; split <;> omega
      have := (sbbZip_spec (a.take n) (b.take n) (b2n c) htl (ha.take _) (hb.take _) hc).2.1
      rw [this]; simp [List.length_take]; omega
    have hma : memOf a n = a[n] := memOf_lt hla
    have hmb : memOf b n = b[n] := memOf_lt hlb
    rw [hma, hmb]
    constructor
    · rw [map_upd_range, ih1]
      simp only [sbbZip]
      rw [List.set_append_right _ _ (by omega), hzl, Nat.sub_self, sbbI_fst, ih2]
      have hd : a.drop n = a[n] :: a.drop (n + 1) := List.drop_eq_getElem_cons hla
      rw [hd, List.set_cons_zero, List.append_assoc]
      rfl
    · simp only [sbbZip]
      rw [sbbI_snd, ih2]

/-! ### list level, as the Rust wrapper calls the routine -/

/-- the schoolbook digit chains of C01 (NB.Model.AddSub) selected by the checker's flag -/
def zipOf (isSub : Bool) : Nat → List Nat → List Nat → List Nat × Nat := if isSub then sbbZip else adcZip

theorem chainG_list (isSub : Bool) (a b : List Nat) (c : Bool) (n : Nat) (hna : n ≤ a.length) (hnb : n ≤ b.length)
    (ha : DigitsOk a) (hb : DigitsOk b) :
    (List.range a.length).map (chainG (opOf isSub) (memOf a) (memOf b) c 0 n).1 =
        (zipOf isSub (b2n c) (a.take n) (b.take n)).1 ++ a.drop n ∧
    b2n (chainG (opOf isSub) (memOf a) (memOf b) c 0 n).2 = (zipOf isSub (b2n c) (a.take n) (b.take n)).2 := by
  cases isSub with
  | false =>
    have e : opOf false = adcI := rfl
    have e2 : zipOf false = adcZip := rfl
    rw [e, e2, chainG_adc]
    exact chainAdd_list a b c n hna hnb ha hb
  | true =>
    have e : opOf true = sbbI := rfl
    have e2 : zipOf true = sbbZip := rfl
    rw [e, e2, chainG_sbb]
    exact chainSub_list a b c n hna hnb ha hb

/-- SOUNDNESS OF THE CHECKER, for every program and every wrapper divisor `d ≥ w` (`size /= d`):
    called like the Rust wrapper on slices holding at least `size` digits (< 2^64), an accepted
    program does not fault — every memory access of the run is in bounds and nothing is stored
    through `b` — and returns the carry/borrow, `idx = w * (size / d)` and the digits of the
    schoolbook chain on that prefix, the rest of `a` unchanged. -/
theorem checkLoop_sound_div {isSub : Bool} {prog : List Instr} {R : Regs} {nregs w : Nat}
    (h : checkLoop isSub prog R nregs = some w) (d : Nat) (hwd : w ≤ d)
    (a b : List Nat) (size : Nat) (hsa : size ≤ a.length) (hsb : size ≤ b.length)
    (hB : a.length < B) (ha : DigitsOk a) (hb : DigitsOk b) :
    call prog R d a b size =
      some (decide ((zipOf isSub 0 (a.take (w * (size / d))) (b.take (w * (size / d)))).2 > 0),
            w * (size / d),
            (zipOf isSub 0 (a.take (w * (size / d))) (b.take (w * (size / d)))).1 ++ a.drop (w * (size / d))) := by
  have hd := (checkLoop_inv h).choose_spec.choose_spec.2.1
  have hne := regsDistinct_idx_size hd
  unfold call
  by_cases hn : size / d = 0
  · have hz : zipOf isSub 0 [] [] = ([], 0) := by cases isSub <;> rfl
    simp [hn, hz]
  · simp only [hn, if_false]
    have hdone : w * (size / d) ≤ size :=
      Nat.le_trans (Nat.mul_le_mul_right _ hwd) (Nat.mul_div_le size d)
    obtain ⟨s', he, h1, h2, h3, h4⟩ := checkLoop_run h a.length b.length (size / d) (Nat.pos_of_ne_zero hn)
      (Nat.lt_of_le_of_lt (Nat.div_le_self size d) (by omega)) hB (by omega) (by omega)
      (initSt R (size / d) a b).regs false false (memOf a) (memOf b)
      (by simp [initSt, upd])
      (by show upd (upd (fun _ => 0) R.size (size / d)) R.idx 0 R.size = _
          rw [upd_other _ _ (fun e => hne e.symm), upd_same])
    have hinit : initSt R (size / d) a b = ⟨(initSt R (size / d) a b).regs, false, false, memOf a, memOf b⟩ := rfl
    rw [hinit, he]
    obtain ⟨l1, l2⟩ := chainG_list isSub a b false (w * (size / d)) (by omega) (by omega) ha hb
    have hb0 : b2n false = 0 := rfl
    rw [hb0] at l1 l2
    simp only [Option.some.injEq, Prod.mk.injEq]
    refine ⟨?_, h3, ?_⟩
    · rw [h4, ← l2]
    · rw [h1]; exact l1

/-- SOUNDNESS in the shape the wrapper uses today (`size /= w`) -/
theorem checkLoop_sound {isSub : Bool} {prog : List Instr} {R : Regs} {nregs w : Nat}
    (h : checkLoop isSub prog R nregs = some w)
    (a b : List Nat) (size : Nat) (hsa : size ≤ a.length) (hsb : size ≤ b.length)
    (hB : a.length < B) (ha : DigitsOk a) (hb : DigitsOk b) :
    call prog R w a b size =
      some (decide ((zipOf isSub 0 (a.take (w * (size / w))) (b.take (w * (size / w)))).2 > 0),
            w * (size / w),
            (zipOf isSub 0 (a.take (w * (size / w))) (b.take (w * (size / w)))).1 ++ a.drop (w * (size / w))) :=
  checkLoop_sound_div h w (Nat.le_refl w) a b size hsa hsb hB ha hb

/-! ### the checker on small hand-written programs (it accepts, and it rejects) -/

/-- register roles of the examples: size a b c idx; 5, 6 are scratch -/
def exRegs : Regs := ⟨0, 1, 2, 3, 4⟩

/-- a 2-way unrolled subtract loop with memory source operands, `lea`, no trailing `clc` -/
def exBody (tail : List Instr) : List Instr :=
  [.clc, .label 1,
   .load 5 1 4 0, .load 6 1 4 1, .sbbm 5 2 4 0, .sbbm 6 2 4 1, .store 1 4 0 5, .store 1 4 1 6] ++ tail

example : checkLoop true (exBody [.lea 4 4 2, .dec 0, .jnz 1, .setc 3]) exRegs 7 = some 2 := by decide
example : checkLoop true (exBody [.inc 4, .dec 0, .inc 4, .dec 5, .dec 0, .jnz 1, .setc 3]) exRegs 7 = none := by decide
/-- look-ahead load of the next block's first digit: reads one block past the end in the last iteration -/
example : checkLoop true (exBody [.lea 4 4 2, .load 6 2 4 0, .dec 0, .jnz 1, .setc 3]) exRegs 7 = none := by decide
/-- `add idx, 2` clobbers the borrow that the next iteration needs -/
example : checkLoop true (exBody [.addi 4 2, .dec 0, .jnz 1, .setc 3]) exRegs 7 = none := by decide
/-- an `inc` after the `dec`: ZF is no longer the one of `dec {size}` -/
example : checkLoop true (exBody [.inc 4, .dec 0, .inc 4, .jnz 1, .setc 3]) exRegs 7 = none := by decide
/-- the carry is read after it was cleared -/
example : checkLoop true (exBody [.lea 4 4 2, .dec 0, .jnz 1, .clc, .setc 3]) exRegs 7 = none := by decide
/-- store one digit too far -/
example : checkLoop true
    [.clc, .label 1, .load 5 1 4 0, .load 6 1 4 1, .sbbm 5 2 4 0, .sbbm 6 2 4 1, .store 1 4 0 5, .store 1 4 2 6,
     .lea 4 4 2, .dec 0, .jnz 1, .setc 3] exRegs 7 = none := by decide
/-- no `clc` in front of the loop: the chain would start with whatever CF the caller left -/
example : checkLoop true
    [.label 1, .load 5 1 4 0, .sbbm 5 2 4 0, .store 1 4 0 5, .inc 4, .dec 0, .jnz 1, .setc 3] exRegs 7 = none := by decide
/-- an add loop is not a subtract loop -/
example : checkLoop false (exBody [.lea 4 4 2, .dec 0, .jnz 1, .setc 3]) exRegs 7 = none := by decide
/-- the accepted program really runs: 3 digits, one block of 2, borrow out -/
example : call (exBody [.lea 4 4 2, .dec 0, .jnz 1, .setc 3]) exRegs 2 [0, 0, 5] [1, 0, 9] 3
    = some (true, 2, [B - 1, B - 1, 5]) := by decide

end NB.Asm
