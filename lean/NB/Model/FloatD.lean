/-
  NB.Model.FloatD — DIGIT-LEVEL layer link for the float conversions (property C08), one layer below
  NB.Model.Float.

  NB.Model.Float models `FromPrimitive::from_f64` with the BigUint operators `ret <<= exponent` /
  `ret >>= -exponent` at VALUE level (`ofNat (val ret * 2^e)`, `ofNat (val ret / 2^e)`) and `to_f32/to_f64`
  with a private copy of `BigUint::bits` (`NB.Conv.bitsOf`) and `fls` as `bitLen`.  Here the same functions
  are written on digit vectors with every BigUint operator / method replaced by the digit-level model that
  is proved exact elsewhere:

    `BigUint::from(mantissa)`           `NB.Conv.U.fromU64`        (`impl From<u64>`, NB.Model.Convert, C08)
    `ret <<= exponent as usize`         `NB.C07.biguintShl`        (`ShlAssign<usize>` = `biguint_shl(Cow::Owned(n), rhs)`,
                                                                    NB.Model.Shift, C07: `shl_spec`, `shl_capacity`)
    `ret >>= (-exponent) as usize`      `NB.C07.biguintShr`        (`ShrAssign<usize>`, C07: `shr_spec`)
    `self.bits()`                       `NB.C07.bitsU`             (`BigUint::bits`, NB.Model.Bits, C07: `bits_spec_u`)
    `fls(mantissa)` on a `u64`          `64 - NB.C07.lzDigit m`    (`size_of::<u64>() * 8 - leading_zeros()`; the
                                                                    `u64::leading_zeros` intrinsic of NB.Model.Bits)
    `high_bits_to_u64`                  the digit walk `NB.Conv.hbLoop` of NB.Model.Float (already digit level),
                                        started with `v.bits()` = `bitsU`
    `BigInt::from(BigUint)`, `-x`       `NB.Conv.I.fromBiguint`, sign flip (as in NB.Model.Float)

  Sources: src/biguint/convert.rs (`fls`, `high_bits_to_u64`, `ToPrimitive::to_f32/to_f64`,
  `FromPrimitive::from_f64`), src/bigint/convert.rs (`to_f32/to_f64`, `from_f64`), num-traits default
  `from_f32(n) = from_f64(From::from(n))`.
  Every operator panic (`attempt to shift … with negative`, `capacity overflow`) is propagated through
  `Except Panic`, so `from_f64` here returns `Except Panic (Option _)`.  The hardware-float assumptions are
  those of NB.Model.Float (same functions `castU64`, `powi2`, `fmulPow2`, `truncBits`, `integerDecode`,
  `f32ToF64` on bit patterns).
  NB.Lemmas.FloatD / NB.Props.C08 prove every definition here equal to the NB.Model.Float one
  (`…D_refines`), so `to_float_spec`, `fromF64_spec`, … transfer (`…D_spec`).
-/
import NB.Base
import NB.Model.Convert
import NB.Model.Float
import NB.Model.Bits
import NB.Model.Shift
namespace NB.Conv

/-- `fls(v: u64) = size_of::<u64>() as u8 * 8 - v.leading_zeros() as u8` -/
def flsU64 (m : Nat) : Nat := 8 * 8 - NB.C07.lzDigit m

/-- `high_bits_to_u64(v)`: `let mut bits = v.bits()` is the digit-level `BigUint::bits` -/
def highBitsToU64D (v : List Nat) : Except Panic Nat :=
  match v with
  | [] => .ok 0
  | [d] => .ok d
  | _ => hbLoop v.reverse (NB.C07.bitsU v) 0 0

/-- `BigUint::to_f32` / `to_f64`: `let exponent = self.bits() - u64::from(fls(mantissa))` (underflow site),
    `if exponent > MAX_EXP { INFINITY } else { (mantissa as f) * 2.0.powi(exponent as i32) }` -/
def U.toFloatD (f : FFmt) (x : List Nat) : Except Panic Nat := do
  let mantissa ← highBitsToU64D x
  let bits := NB.C07.bitsU x
  if bits < flsU64 mantissa then .error (.internal "to_float exponent underflow") else
  let exponent := bits - flsU64 mantissa
  if exponent > f.maxExp then pure f.infBits
  else pure (fmulPow2 f (castU64 f mantissa) (powi2 f exponent))

/-- `BigInt::to_f32` / `to_f64`: `let n = self.data.to_f()?; if self.sign == Minus { -n } else { n }` -/
def I.toFloatD (f : FFmt) (x : BigInt) : Except Panic Nat := do
  let n ← U.toFloatD f x.mag
  pure (if x.sign = .minus then (if n ≥ f.signBit then n - f.signBit else n + f.signBit) else n)

/-- the part of `BigUint::from_f64` after `integer_decode`: sign test, `BigUint::from(mantissa)`, then
    `match exponent.cmp(&0) { Greater => ret <<= exponent as usize, Equal => {}, Less => ret >>= (-exponent) as usize }`
    with the digit-level shift operators (the exponent arrives with its offset `bias + fbits`, as in
    `NB.Conv.U.fromDecoded`) -/
def U.fromDecodedD (mantissa expo : Nat) (neg : Bool) : Except Panic (Option (List Nat)) :=
  if neg then .ok none else
  let ret := U.fromU64 mantissa
  let off := f64.bias + f64.fbits       -- `exponent -= 1023 + 52`
  match compare expo off with
  | .gt => (NB.C07.biguintShl ret ((expo - off : Nat) : Int)).map some
  | .eq => .ok (some ret)
  | .lt => (NB.C07.biguintShr ret ((off - expo : Nat) : Int)).map some

/-- `BigUint::from_f64(n)` on the 64-bit pattern `b` -/
def U.fromF64D (b : Nat) : Except Panic (Option (List Nat)) :=
  if !fIsFinite f64 b then .ok none else
  let n := truncBits f64 b
  if fIsZero f64 n then .ok (some []) else
  let d := integerDecode f64 n
  U.fromDecodedD d.1 d.2.1 d.2.2

/-- num-traits default `from_f32(n) = from_f64(From::from(n))` -/
def U.fromF32D (b : Nat) : Except Panic (Option (List Nat)) := U.fromF64D (f32ToF64 b)

/-- `BigInt::from_f64`: `if n >= 0.0 { BigUint::from_f64(n).map(BigInt::from) } else
    { let x = BigUint::from_f64(-n)?; Some(-BigInt::from(x)) }` -/
def I.fromF64D (b : Nat) : Except Panic (Option BigInt) :=
  if fGeZero f64 b then (U.fromF64D b).map (fun o => o.map I.fromBiguint)
  else
    match U.fromF64D (fNeg f64 b) with
    | .error e => .error e
    | .ok none => .ok none
    | .ok (some x) =>
      let y := I.fromBiguint x
      .ok (some ⟨y.sign.neg, y.mag⟩)          -- `-BigInt::from(x)`

def I.fromF32D (b : Nat) : Except Panic (Option BigInt) := I.fromF64D (f32ToF64 b)

end NB.Conv
