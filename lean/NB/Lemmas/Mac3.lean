/- the central induction for `mac3`: specification of one recursion level (`mac3Body`) over an
   arbitrary recursive callee that is already correct on strictly smaller operands -/
import NB.Lemmas.Mul
namespace NB.Mul

/-- Well-formedness of the extracted thresholds / split rules for the multiplication model.
    These make the recursion well founded and the temporaries large enough:
    * `karaSlack, mulSlack ≥ 1`: one spare digit in `p` and in `mul3`'s product buffer;
    * `2 ≤ halfDen ≤ tSchool+1`, `2 ≤ karaDen ≤ tSchool+1`: both parts of a split are non-empty
      and the low part is not longer than the high part (`x1.len() >= x0.len()`);
    * Toom-3: `i = y.len()/toomDen + toomAdd ≥ 1` and `i + 2 ≤ x.len()` in that regime. -/
def _root_.NB.Params.ValidMul (P : Params) : Prop :=
  1 ≤ P.karaSlack ∧ 1 ≤ P.mulSlack ∧ 2 ≤ P.halfDen ∧ P.halfDen ≤ P.tSchool + 1 ∧
  2 ≤ P.karaDen ∧ P.karaDen ≤ P.tSchool + 1 ∧ 1 ≤ P.toomAdd ∧ P.halfMul + 1 ≤ P.toomDen ∧
  (P.halfMul + 1) * (P.toomAdd + 1) ≤ P.tKara + 1

instance (P : Params) : Decidable P.ValidMul := by unfold Params.ValidMul; infer_instance

abbrev MacFn := List Nat → List Nat → List Nat → Except Panic (List Nat)

/-- what callers of `mac3` establish: proper digits, room for the product plus one spare digit,
    and the final value below the top digit -/
def MacPre (acc b c : List Nat) : Prop :=
  DigitsOk acc ∧ DigitsOk b ∧ DigitsOk c ∧ b.length + c.length + 1 ≤ acc.length ∧
  val acc + val b * val c < B ^ (acc.length - 1)

/-- what `mac3` guarantees -/
def MacOk (f : MacFn) (acc b c : List Nat) : Prop :=
  ∃ r, f acc b c = .ok r ∧ val r = val acc + val b * val c ∧ r.length = acc.length ∧ DigitsOk r

/-- `f` is a correct multiply-accumulate on all operand pairs of total length `< N` -/
def MacSpec (f : MacFn) (N : Nat) : Prop :=
  ∀ acc b c, b.length + c.length < N → MacPre acc b c → MacOk f acc b c

theorem mx_val_mul_lt {b c : List Nat} (hb : DigitsOk b) (hc : DigitsOk c) :
    val b * val c < B ^ (b.length + c.length) := by
  rw [pow_add]; exact Nat.mul_lt_mul'' (val_lt hb) (val_lt hc)

/-- a recursive call on a suffix of the accumulator -/
theorem suffix_mac {rec : MacFn} {N : Nat} (hrec : MacSpec rec N) (off : Nat) (acc b c : List Nat)
    (ha : DigitsOk acc) (hb : DigitsOk b) (hc : DigitsOk c) (hN : b.length + c.length < N)
    (hl : off + b.length + c.length + 1 ≤ acc.length)
    (hv : val acc + B ^ off * (val b * val c) < B ^ (acc.length - 1)) :
    ∃ r, onSuffix off acc (fun t => rec t b c) = .ok r ∧ val r = val acc + B ^ off * (val b * val c) ∧
      r.length = acc.length ∧ DigitsOk r := by
  have hoff : off ≤ acc.length := by omega
  have hsp := mx_val_split off acc hoff
  have hdl : (acc.drop off).length = acc.length - off := List.length_drop
  have hpre : MacPre (acc.drop off) b c := by
    refine ⟨ha.drop _, hb, hc, by omega, ?_⟩
    rw [hdl]
    apply mx_lt_of_mul_add_lt (lo := val (acc.take off)) (P := B ^ off)
    have : B ^ (acc.length - 1) = B ^ off * B ^ (acc.length - off - 1) := by
      rw [← pow_add]; congr 1; omega
    rw [← this, Nat.mul_add]; omega
  obtain ⟨t, h1, h2, h3, h4⟩ := hrec _ b c hN hpre
  obtain ⟨r1, r2, r3⟩ := mx_suffix_result hoff ha h4 h3 h2
  exact ⟨_, onSuffix_ok hoff h1, r1, r2, r3⟩

/-- a product into a fresh zeroed temporary, then `normalize` -/
theorem fresh_mac {rec : MacFn} {N : Nat} (hrec : MacSpec rec N) (len : Nat) (b c : List Nat)
    (hb : DigitsOk b) (hc : DigitsOk c) (hN : b.length + c.length < N)
    (hl : b.length + c.length + 1 ≤ len) :
    ∃ r, rec (List.replicate len 0) b c = .ok r ∧ Canon (normalize r) ∧
      val (normalize r) = val b * val c ∧ (normalize r).length ≤ b.length + c.length := by
  have hpre : MacPre (List.replicate len 0) b c := by
    refine ⟨mx_digitsOk_replicate_zero _, hb, hc, by simpa using hl, ?_⟩
    rw [mx_val_replicate_zero, List.length_replicate, Nat.zero_add]
    exact Nat.lt_of_lt_of_le (mx_val_mul_lt hb hc) (mx_pow_le_pow_B (by omega))
  obtain ⟨r, h1, h2, _, h4⟩ := hrec _ b c hN hpre
  rw [mx_val_replicate_zero, Nat.zero_add] at h2
  refine ⟨r, h1, normalize_canon h4, by rw [normalize_val, h2], ?_⟩
  exact mx_normalize_length_le h4 (by rw [h2]; exact mx_val_mul_lt hb hc)

/-! ### Half-Karatsuba -/

theorem halfKara_spec (P : Params) {rec : MacFn} {N : Nat} (hrec : MacSpec rec N)
    (acc x y : List Nat) (hpre : MacPre acc x y) (hN : x.length + y.length ≤ N)
    (hm1 : 1 ≤ y.length / P.halfDen) (hm2 : y.length / P.halfDen < y.length) :
    MacOk (halfKara P rec) acc x y := by
  obtain ⟨ha, hx, hy, hl, hv⟩ := hpre
  unfold MacOk halfKara
  dsimp only
  have hm : y.length / P.halfDen ≤ y.length := by omega
  have hsp := mx_val_split _ y hm
  generalize y.length / P.halfDen = m2 at *
  have hexp : val x * val y = val x * val (y.take m2) + B ^ m2 * (val x * val (y.drop m2)) := by
    rw [hsp]; ring
  have htl : (y.take m2).length = m2 := by rw [List.length_take]; omega
  have hdl : (y.drop m2).length = y.length - m2 := List.length_drop
  obtain ⟨a1, e1, v1, l1, d1⟩ := hrec acc x (y.take m2) (by rw [htl]; omega)
    ⟨ha, hx, hy.take _, by rw [htl]; omega, by rw [hexp] at hv; omega⟩
  obtain ⟨a2, e2, v2, l2, d2⟩ := suffix_mac hrec m2 a1 x (y.drop m2) d1 hx (hy.drop _)
    (by rw [hdl]; omega) (by rw [hdl, l1]; omega) (by rw [l1, v1]; rw [hexp] at hv; omega)
  refine ⟨a2, ?_, by rw [v2, v1, hexp]; omega, by rw [l2, l1], d2⟩
  simp only [e1, e2]

/-! ### Karatsuba -/

theorem kara_bound {A X0 X1 Y0 Y1 Pb Q : Nat} (hT : A + (X0 + Pb * X1) * (Y0 + Pb * Y1) < Q)
    (hX0 : X0 < Pb) (hY0 : Y0 < Pb) (hQ : Pb * (Pb * Pb) ≤ Q) :
    A + Pb * (X1 * Y1) + Pb * Pb * (X1 * Y1) + X0 * Y0 + Pb * (X0 * Y0) < 3 * Q := by
  have hPb : 1 ≤ Pb := by omega
  have hexp : (X0 + Pb * X1) * (Y0 + Pb * Y1)
      = X0 * Y0 + Pb * (X0 * Y1 + X1 * Y0) + Pb * (Pb * (X1 * Y1)) := by ring
  rw [hexp] at hT
  have h0 : X0 * Y0 < Pb * Pb := Nat.mul_lt_mul'' hX0 hY0
  have hw : Pb * (X0 * Y0) < Pb * (Pb * Pb) := Nat.mul_lt_mul_of_pos_left h0 (by omega)
  have hu : Pb * (X1 * Y1) ≤ Pb * (Pb * (X1 * Y1)) := Nat.le_mul_of_pos_left _ (by omega)
  have e : Pb * Pb * (X1 * Y1) = Pb * (Pb * (X1 * Y1)) := by ring
  rw [e]
  generalize Pb * (Pb * (X1 * Y1)) = v at *
  generalize Pb * (X1 * Y1) = u at *
  generalize Pb * (X0 * Y0) = w at *
  generalize Pb * (X0 * Y1 + X1 * Y0) = m at *
  generalize X0 * Y0 = p0 at *
  omega

/-- value of the accumulator after the four additions, in terms of the exact result `T` -/
theorem kara_sum {A X0 X1 Y0 Y1 Pb : Nat} :
    A + Pb * (X1 * Y1) + Pb * Pb * (X1 * Y1) + X0 * Y0 + Pb * (X0 * Y0) + Pb * (X0 * Y1 + X1 * Y0)
      = A + (X0 + Pb * X1) * (Y0 + Pb * Y1) + Pb * (X1 * Y1 + X0 * Y0) := by ring

theorem kara_id_pp {X0 Y0 J0 J1 : Nat} :
    J0 * J1 + (X0 * (Y0 + J1) + (X0 + J0) * Y0) = (X0 + J0) * (Y0 + J1) + X0 * Y0 := by ring
theorem kara_id_mm {X1 Y1 J0 J1 : Nat} :
    J0 * J1 + ((X1 + J0) * Y1 + X1 * (Y1 + J1)) = X1 * Y1 + (X1 + J0) * (Y1 + J1) := by ring
theorem kara_id_pm {X0 Y1 J0 J1 : Nat} :
    (X0 + J0) * Y1 + X0 * (Y1 + J1) + J0 * J1 = X0 * Y1 + (X0 + J0) * (Y1 + J1) := by ring
theorem kara_id_mp {X1 Y0 J0 J1 : Nat} :
    X1 * (Y0 + J1) + (X1 + J0) * Y0 + J0 * J1 = (X1 + J0) * (Y0 + J1) + X1 * Y0 := by ring

/-- the `match j0_sign * j1_sign` step, given the accumulator `acc4` after the four additions:
    `S` is its value, `T` the exact final value, `D = p2 + p0`, `M = x0*y1 + x1*y0`. -/
theorem karaMiddle_spec (P : Params) {rec : MacFn} {N : Nat} (hrec : MacSpec rec N)
    (b len : Nat) (acc4 j0 j1 : List Nat) (s : Sign) (T D M : Nat)
    (ha : DigitsOk acc4) (hj0 : DigitsOk j0) (hj1 : DigitsOk j1) (hN : j0.length + j1.length < N)
    (hlen : j0.length + j1.length + 1 ≤ len) (hl : b + j0.length + j1.length + 1 ≤ acc4.length)
    (hS : val acc4 + B ^ b * M = T + B ^ b * D) (hT : T < B ^ (acc4.length - 1))
    (hs : (s = .plus ∧ val j0 * val j1 + M = D) ∨ (s = .minus ∧ D + val j0 * val j1 = M) ∨
          (s = .nosign ∧ D = M)) :
    ∃ r, karaMiddle P rec b len acc4 s j0 j1 = .ok r ∧ val r = T ∧ r.length = acc4.length ∧
      DigitsOk r := by
  unfold karaMiddle
  rcases hs with ⟨rfl, hid⟩ | ⟨rfl, hid⟩ | ⟨rfl, hid⟩
  · simp only
    obtain ⟨p, e1, c1, v1, _⟩ := fresh_mac hrec len j0 j1 hj0 hj1 hN hlen
    simp only [e1]
    have hmul : B ^ b * (val j0 * val j1) + B ^ b * M = B ^ b * D := by rw [← Nat.mul_add, hid]
    obtain ⟨r, e2, v2, l2, d2⟩ := subAt_spec P b acc4 (normalize p) ha c1.1 (by omega)
      (by rw [v1]; omega)
    exact ⟨r, e2, by rw [v1] at v2; omega, l2, d2⟩
  · simp only
    have hmul : B ^ b * D + B ^ b * (val j0 * val j1) = B ^ b * M := by rw [← Nat.mul_add, hid]
    obtain ⟨r, e2, v2, l2, d2⟩ := suffix_mac hrec b acc4 j0 j1 ha hj0 hj1 hN hl (by omega)
    exact ⟨r, e2, by omega, l2, d2⟩
  · simp only
    exact ⟨acc4, rfl, by rw [hid] at hS; omega, rfl, ha⟩

theorem karatsuba_spec (P : Params) (hP : P.ValidMul) {rec : MacFn} {N : Nat} (hrec : MacSpec rec N)
    (acc x y : List Nat) (hpre : MacPre acc x y) (hN : x.length + y.length ≤ N)
    (hxy : x.length ≤ y.length) (hxs : P.tSchool < x.length) :
    MacOk (karatsuba P rec) acc x y := by
  obtain ⟨ha, hx, hy, hl, hv⟩ := hpre
  obtain ⟨hks, _, _, _, hkd2, hkd, _, _, _⟩ := hP
  -- the split point
  have hb1 : 1 ≤ x.length / P.karaDen := Nat.div_pos (by omega) (by omega)
  have hb2 : 2 * (x.length / P.karaDen) ≤ x.length := by
    calc 2 * (x.length / P.karaDen) ≤ P.karaDen * (x.length / P.karaDen) := Nat.mul_le_mul_right _ hkd2
      _ ≤ x.length := Nat.mul_div_le _ _
  unfold MacOk karatsuba
  dsimp only
  generalize x.length / P.karaDen = b at *
  have hbx : b ≤ x.length := by omega
  have hby : b ≤ y.length := by omega
  have hx0l : (x.take b).length = b := by rw [List.length_take]; omega
  have hy0l : (y.take b).length = b := by rw [List.length_take]; omega
  have hx1l : (x.drop b).length = x.length - b := List.length_drop
  have hy1l : (y.drop b).length = y.length - b := List.length_drop
  have hspx := mx_val_split b x hbx
  have hspy := mx_val_split b y hby
  have hX0 : val (x.take b) < B ^ b := by have := val_lt (hx.take b); rwa [hx0l] at this
  have hY0 : val (y.take b) < B ^ b := by have := val_lt (hy.take b); rwa [hy0l] at this
  have hX1 : val (x.drop b) < B ^ (x.length - b) := by have := val_lt (hx.drop b); rwa [hx1l] at this
  have hY1 : val (y.drop b) < B ^ (y.length - b) := by have := val_lt (hy.drop b); rwa [hy1l] at this
  have hdx0 := hx.take b
  have hdx1 := hx.drop b
  have hdy0 := hy.take b
  have hdy1 := hy.drop b
  simp only [hx1l, hy1l]
  generalize hlen : x.length - b + (y.length - b) + P.karaSlack = len
  -- sizes
  have hQ : B ^ b * (B ^ b * B ^ b) ≤ B ^ (acc.length - 1) := by
    rw [← pow_add, ← pow_add]; exact mx_pow_le_pow_B (by omega)
  have hn1 : B ^ acc.length = B * B ^ (acc.length - 1) := by
    rw [← pow_succ']; congr 1; omega
  rw [hspx, hspy] at hv
  have hS4 := kara_bound hv hX0 hY0 hQ
  have hB3 : 3 ≤ B := by decide
  have hS4' : val acc + B ^ b * (val (x.drop b) * val (y.drop b)) + B ^ b * B ^ b * (val (x.drop b) * val (y.drop b))
      + val (x.take b) * val (y.take b) + B ^ b * (val (x.take b) * val (y.take b)) < B ^ acc.length := by
    rw [hn1]
    have : 3 * B ^ (acc.length - 1) ≤ B * B ^ (acc.length - 1) := Nat.mul_le_mul_right _ hB3
    omega
  -- p2 = x1 * y1
  obtain ⟨p2, e1, c1, v1, l1⟩ := fresh_mac hrec len (x.drop b) (y.drop b) hdx1 hdy1
    (by rw [hx1l, hy1l]; omega) (by rw [hx1l, hy1l]; omega)
  rw [hx1l, hy1l] at l1
  obtain ⟨a1, e2, v2, l2, d2⟩ := addAt_spec P b acc (normalize p2) ha c1.1 (by omega)
    (by rw [v1]; omega)
  rw [v1] at v2
  have hb2pow : B ^ (b * 2) = B ^ b * B ^ b := by rw [Nat.mul_comm, two_mul, pow_add]
  obtain ⟨a2, e3, v3, l3, d3⟩ := addAt_spec P (b * 2) a1 (normalize p2) d2 c1.1 (by rw [l2]; omega)
    (by rw [v1, v2, l2, hb2pow]; omega)
  rw [v1, v2, hb2pow] at v3
  rw [l2] at l3
  -- p0 = x0 * y0
  obtain ⟨p0, e4, c4, v4, l4⟩ := fresh_mac hrec len (x.take b) (y.take b) hdx0 hdy0
    (by rw [hx0l, hy0l]; omega) (by rw [hx0l, hy0l]; omega)
  rw [hx0l, hy0l] at l4
  obtain ⟨a3, e5, v5, l5, d5⟩ := add2g_spec P a2 (normalize p0) d3 c4.1 (by rw [l3]; omega)
    (by rw [v4, v3, l3]; omega)
  rw [v4, v3] at v5
  rw [l3] at l5
  obtain ⟨a4, e6, v6, l6, d6⟩ := addAt_spec P b a3 (normalize p0) d5 c4.1 (by rw [l5]; omega)
    (by rw [v4, v5, l5]; omega)
  rw [v4, v5] at v6
  rw [l5] at l6
  -- p1 = (x1 - x0) * (y1 - y0)
  obtain ⟨s0, j0, e7, c7, h7⟩ := subSign_spec P (x.drop b) (x.take b) hdx1 hdx0
  obtain ⟨s1, j1, e8, c8, h8⟩ := subSign_spec P (y.drop b) (y.take b) hdy1 hdy0
  have hpx : B ^ b ≤ B ^ (x.length - b) := mx_pow_le_pow_B (by omega)
  have hpy : B ^ b ≤ B ^ (y.length - b) := mx_pow_le_pow_B (by omega)
  have hj0l : j0.length ≤ x.length - b := by
    apply mx_canon_length_le c7
    rcases h7 with ⟨_, _, h⟩ | ⟨_, _, h⟩ | ⟨_, _, h⟩
    · omega
    · omega
    · rw [h]; exact Nat.pow_pos B_pos
  have hj1l : j1.length ≤ y.length - b := by
    apply mx_canon_length_le c8
    rcases h8 with ⟨_, _, h⟩ | ⟨_, _, h⟩ | ⟨_, _, h⟩
    · omega
    · omega
    · rw [h]; exact Nat.pow_pos B_pos
  have hl6 : a4.length = acc.length := l6
  have hmid := karaMiddle_spec P hrec b len a4 j0 j1 (s0.mul s1)
    (val acc + (val (x.take b) + B ^ b * val (x.drop b)) * (val (y.take b) + B ^ b * val (y.drop b)))
    (val (x.drop b) * val (y.drop b) + val (x.take b) * val (y.take b))
    (val (x.take b) * val (y.drop b) + val (x.drop b) * val (y.take b))
    d6 c7.1 c8.1 (by omega) (by omega) (by rw [hl6]; omega)
    (by rw [v6]; exact kara_sum) (by rw [hl6]; exact hv)
    (by
      rcases h7 with ⟨rfl, _, h7⟩ | ⟨rfl, _, h7⟩ | ⟨rfl, h7, _⟩ <;>
      rcases h8 with ⟨rfl, _, h8⟩ | ⟨rfl, _, h8⟩ | ⟨rfl, h8, _⟩
      · left; refine ⟨rfl, ?_⟩; rw [← h7, ← h8, Nat.add_comm (val j0), Nat.add_comm (val j1)]; exact kara_id_pp
      · right; left; refine ⟨rfl, ?_⟩; rw [← h7, ← h8, Nat.add_comm (val j0), Nat.add_comm (val j1)]
        rw [Nat.add_comm (_ * val (y.drop b)) (_ * (val (y.drop b) + val j1))]
        have := @kara_id_pm (val (x.take b)) (val (y.drop b)) (val j0) (val j1)
        omega
      · right; right; refine ⟨rfl, ?_⟩; rw [h8]; ring
      · right; left; refine ⟨rfl, ?_⟩; rw [← h7, ← h8, Nat.add_comm (val j0), Nat.add_comm (val j1)]
        have := @kara_id_mp (val (x.drop b)) (val (y.take b)) (val j0) (val j1)
        omega
      · left; refine ⟨rfl, ?_⟩; rw [← h7, ← h8, Nat.add_comm (val j0), Nat.add_comm (val j1)]
        have := @kara_id_mm (val (x.drop b)) (val (y.drop b)) (val j0) (val j1)
        omega
      · right; right; refine ⟨rfl, ?_⟩; rw [h8]; ring
      · right; right; refine ⟨rfl, ?_⟩; rw [h7]
      · right; right; refine ⟨rfl, ?_⟩; rw [h7]
      · right; right; refine ⟨rfl, ?_⟩; rw [h7])
  obtain ⟨r, e9, v9, l9, d9⟩ := hmid
  refine ⟨r, ?_, by rw [v9, hspx, hspy], by rw [l9, hl6], d9⟩
  simp only [e1, e2, e3, e4, e5, e6, e7, e8, mx_ok_bind, e9]

end NB.Mul
