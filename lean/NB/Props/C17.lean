/-
  C17 — Serialized form is the portable u32-digit format and round-trips exactly.

  Theorems about the executable model NB.Model.Serde (transcribed from src/biguint/serde.rs and
  src/bigint/serde.rs, 64-bit digit arms; correspondence-checked against the real impls through a
  recording Serializer and a token-replay Deserializer on every run).  A Serializer is abstracted
  to what it is told (the declared sequence length and the u32 elements, the i8 sign), a
  Deserializer to the token list it replays plus its size hint.  Specs: Mathlib `Nat.digits` /
  `Nat.ofDigits` in base 2^32.
-/
import NB.Lemmas.Serde
namespace NB
open NB.Bytes NB.Iter NB.Serde

/-- the length announced to `serialize_seq` is exactly the number of elements emitted — for EVERY
    digit vector (also non-canonical ones) -/
theorem ser_len (d : List Nat) : (ser d).declared = some (ser d).elems.length := ser_declared d

/-- the elements are the base-2^32 digits of the value, least significant first, without a trailing
    zero digit; zero is the empty sequence — independent of the internal 64-bit digit width -/
theorem ser_spec (d : List Nat) (hc : Canon d) : (ser d).elems = Nat.digits (2 ^ 32) (val d) := by
  rw [ser_elems_eq_abs, abs_new hc, W_eq]

theorem ser_zero : ser [] = ⟨some 0, []⟩ := rfl

/-- the serialized elements are exactly what `to_u32_digits` / `iter_u32_digits` produce -/
theorem ser_eq_u32_digits (d : List Nat) (hc : Canon d) : (ser d).elems = toU32Digits d := by
  rw [ser_elems_eq_abs, toU32Digits_eq_abs d hc.1]

/-- deserializing ANY u32 sequence (odd or even length, trailing zero elements, empty), whatever the
    size hint (absent, wrong, huge), yields the canonical representation of `Σ wᵢ·2^(32i)` -/
theorem de_val (hint : Option Nat) (ws : List Nat) (h : Below (2 ^ 32) ws) :
    de hint ws = ofNat (Nat.ofDigits (2 ^ 32) ws) ∧ Canon (de hint ws) := by
  rw [← W_eq] at *
  rw [de_eq hint ws h, ← valBase_eq_ofDigits]
  exact ⟨rfl, ofNat_canon _⟩

/-- the size hint only selects a bounded initial capacity (≤ 2^17 digits): it can neither change the
    value nor cause an oversized allocation -/
theorem de_hint_irrelevant (h1 h2 : Option Nat) (ws : List Nat) :
    de h1 ws = de h2 ws ∧ (visitSeq h1 ws).1 ≤ 131072 := by
  refine ⟨rfl, ?_⟩
  have := cautious_le h1
  simp only [visitSeq]
  omega

/-- trailing zero elements are redundant -/
theorem de_padding (hint : Option Nat) (ws : List Nat) (k : Nat) (h : Below (2 ^ 32) ws) :
    de hint (ws ++ List.replicate k 0) = de hint ws := by
  have hp : Below (2 ^ 32) (ws ++ List.replicate k 0) :=
    h.append (fun x hx => by rw [List.eq_of_mem_replicate hx]; decide)
  rw [(de_val hint _ hp).1, (de_val hint _ h).1, Nat.ofDigits_append_replicate_zero]

/-- `deserialize(serialize(x)) == x` for every value, whatever hint the format passes on -/
theorem de_ser (hint : Option Nat) (d : List Nat) (hc : Canon d) : de hint (ser d).elems = d := by
  rw [ser_spec d hc]
  have hb : Below (2 ^ 32) (Nat.digits (2 ^ 32) (val d)) := fun x hx => Nat.digits_lt_base (by decide) hx
  rw [(de_val hint _ hb).1, Nat.ofDigits_digits, ← canon_eq_ofNat hc]

/-! ## typed element tokens -/

theorem deElems_some {toks : List (TokKind × Int)} {ws : List Nat} (h : deElems toks = some ws) :
    Below (2 ^ 32) ws ∧ ws = toks.map (fun t => t.2.toNat) ∧
      ∀ t ∈ toks, t.1.accepted = true ∧ 0 ≤ t.2 ∧ t.2 < 2 ^ 32 := by
  induction toks generalizing ws with
  | nil =>
    simp [deElems] at h; subst h
    refine ⟨?_, rfl, ?_⟩
    · intro x hx; cases hx
    · intro t ht; cases ht
  | cons t ts ih =>
    unfold deElems at h
    cases he : deElemTok t with
    | none => simp [he] at h
    | some w =>
      cases hr : deElems ts with
      | none => simp [he, hr] at h
      | some ws' =>
        simp [he, hr] at h
        subst h
        obtain ⟨hb, hm, ha⟩ := ih hr
        unfold deElemTok at he
        split at he
        · rename_i hc
          simp only [Bool.and_eq_true, decide_eq_true_eq] at hc
          obtain ⟨⟨h1, h2⟩, h3⟩ := hc
          simp at he
          refine ⟨?_, ?_, ?_⟩
          · intro x hx
            rcases List.mem_cons.1 hx with rfl | hx
            · omega
            · exact hb x hx
          · simp [hm, he]
          · intro t' ht'
            rcases List.mem_cons.1 ht' with rfl | ht'
            · exact ⟨h1, h2, by omega⟩
            · exact ha t' ht'
        · cases he

theorem deElems_none {toks : List (TokKind × Int)} (h : deElems toks = none) :
    ∃ t ∈ toks, ¬ (t.1.accepted = true ∧ 0 ≤ t.2 ∧ t.2 < 2 ^ 32) := by
  induction toks with
  | nil => simp [deElems] at h
  | cons t ts ih =>
    unfold deElems at h
    cases he : deElemTok t with
    | none =>
      refine ⟨t, List.mem_cons_self, ?_⟩
      unfold deElemTok at he
      split at he
      · cases he
      · rename_i hc
        simp only [Bool.and_eq_true, decide_eq_true_eq] at hc
        intro ⟨h1, h2, h3⟩
        exact hc ⟨⟨h1, h2⟩, by omega⟩
    | some w =>
      cases hr : deElems ts with
      | none =>
        obtain ⟨t', ht', hn⟩ := ih hr
        exact ⟨t', List.mem_cons_of_mem _ ht', hn⟩
      | some ws' => simp [he, hr] at h

/-- whatever integer kinds the format uses for the elements (`visit_u8 … visit_u64`, `visit_i8 … visit_i64`, mixed),
    the sequence is accepted exactly when every element is a ≤ 64-bit integer token whose VALUE is a u32, and the
    result is then the canonical representation of `Σ vᵢ·2^(32i)`; otherwise it is rejected -/
theorem de_tok_seq_spec (hint : Option Nat) (toks : List (TokKind × Int)) :
    (( ∀ t ∈ toks, t.1.accepted = true ∧ 0 ≤ t.2 ∧ t.2 < 2 ^ 32) →
        deTokSeq hint toks = some (ofNat (Nat.ofDigits (2 ^ 32) (toks.map (fun t => t.2.toNat))))) ∧
    ((∃ t ∈ toks, ¬ (t.1.accepted = true ∧ 0 ≤ t.2 ∧ t.2 < 2 ^ 32)) → deTokSeq hint toks = none) := by
  constructor
  · intro hall
    unfold deTokSeq
    cases hr : deElems toks with
    | none =>
      obtain ⟨t, ht, hn⟩ := deElems_none hr
      exact absurd (hall t ht) hn
    | some ws =>
      obtain ⟨hb, hm, _⟩ := deElems_some hr
      subst hm
      show some (de hint _) = _
      rw [(de_val hint _ hb).1]
  · intro ⟨t, ht, hn⟩
    unfold deTokSeq
    cases hr : deElems toks with
    | none => rfl
    | some ws =>
      obtain ⟨_, _, ha⟩ := deElems_some hr
      exact absurd (ha t ht) hn

/-! ## Sign and BigInt -/

/-- a sign value other than −1, 0, 1 is rejected (also integers that do not fit an `i8`) -/
theorem sign_de_reject (v : Int) (h : v ≠ -1 ∧ v ≠ 0 ∧ v ≠ 1) : deSign v = none := by
  unfold deSign
  obtain ⟨h1, h2, h3⟩ := h
  simp [h1, h2, h3]

theorem sign_de_accept : deSign (-1) = some .minus ∧ deSign 0 = some .nosign ∧ deSign 1 = some .plus := by
  decide

theorem sign_round_trip (s : Sign) : deSign (serSign s) = some s := by cases s <;> decide

/-- the hints requested while decoding are exactly the kinds written while encoding the same value — for every value,
    so a format that decodes by hint (not self-describing) reads back what was written -/
theorem hints_match_ser_u (d : List Nat) : deHintsU (ser d).elems = serKindsU d := rfl

theorem hints_match_ser_i (x : BigInt) : deHintsI (serBigInt x).1 (serBigInt x).2.elems = serKindsI x := by
  simp [deHintsI, serKindsI, serBigInt, sign_round_trip, hints_match_ser_u]

/-- a rejected sign stops the decoding before the magnitude is requested -/
theorem hints_reject (v : Int) (toks : List Nat) (h : v ≠ -1 ∧ v ≠ 0 ∧ v ≠ 1) :
    deHintsI v toks = [.tuple2, .i8] := by
  simp [deHintsI, sign_de_reject v h]

/-- typed sign tokens: whatever integer type the format hands over (`visit_i8 … visit_i64`, `visit_u8 … visit_u64`),
    the token is accepted exactly when its VALUE is −1, 0 or 1 (so `u64::MAX`, `255u8`, `65535u16` … are rejected,
    they are not "−1 after a cast"), and 128-bit and non-integer tokens are always rejected -/
theorem sign_tok_spec (k : TokKind) (v : Int) (s : Sign) :
    deSignTok k v = some s ↔ k.accepted = true ∧ v = serSign s := by
  unfold deSignTok deSign
  cases hk : k.accepted
  · simp
  · simp only [if_true, true_and]
    by_cases h1 : v = -1
    · subst h1; cases s <;> simp [serSign]
    by_cases h0 : v = 0
    · subst h0; cases s <;> simp [serSign]
    by_cases h2 : v = 1
    · subst h2; cases s <;> simp [serSign]
    have : (if v < -128 ∨ v > 127 then (none : Option Sign) else if v = -1 then some .minus
        else if v = 0 then some .nosign else if v = 1 then some .plus else none) = none := by
      split <;> simp [h1, h0, h2]
    rw [this]
    cases s <;> simp [serSign] <;> omega

theorem sign_tok_reject (k : TokKind) (v : Int) (h : k.accepted = false ∨ (v ≠ -1 ∧ v ≠ 0 ∧ v ≠ 1)) :
    deSignTok k v = none := by
  cases hr : deSignTok k v with
  | none => rfl
  | some s =>
    exfalso
    obtain ⟨hk, hv⟩ := (sign_tok_spec k v s).1 hr
    rcases h with h | ⟨h1, h2, h3⟩
    · rw [hk] at h; cases h
    · cases s <;> simp [serSign] at hv <;> omega

/-- a typed sign token behaves exactly like the untyped value once its kind is accepted -/
theorem de_bigint_tok_eq (k : TokKind) (v : Int) (hint : Option Nat) (toks : List Nat) (hk : k.accepted = true) :
    deBigIntTok k v hint toks = deBigInt v hint toks := by
  simp [deBigIntTok, deBigInt, deSignTok, hk]

theorem de_bigint_tok_reject (k : TokKind) (v : Int) (hint : Option Nat) (toks : List Nat)
    (h : k.accepted = false ∨ (v ≠ -1 ∧ v ≠ 0 ∧ v ≠ 1)) : deBigIntTok k v hint toks = none := by
  simp [deBigIntTok, sign_tok_reject k v h]

/-- the serialized sign is −1, 0 or 1 and, for a canonical value, is the sign of the integer -/
theorem ser_sign_spec (x : BigInt) (hx : x.Canon) : (serBigInt x).1 = Int.sign x.val := by
  obtain ⟨s, m⟩ := x
  obtain ⟨hc, hs⟩ := hx
  simp only at hc hs
  cases s with
  | nosign => simp [serBigInt, serSign, BigInt.val]
  | plus =>
    have hne : m ≠ [] := fun h => by simpa using hs.mpr h
    have := canon_val_pos hc hne
    simp only [serBigInt, serSign, BigInt.val]
    rw [Int.sign_eq_one_of_pos (by omega)]
  | minus =>
    have hne : m ≠ [] := fun h => by simpa using hs.mpr h
    have := canon_val_pos hc hne
    simp only [serBigInt, serSign, BigInt.val]
    rw [Int.sign_eq_neg_one_of_neg (by omega)]

/-- a `BigInt` serializes as the pair (sign as −1/0/1, the u32 digits of the magnitude) -/
theorem bigint_ser_spec (x : BigInt) (hx : x.Canon) :
    (serBigInt x).1 = Int.sign x.val ∧
    (serBigInt x).2.elems = Nat.digits (2 ^ 32) x.val.natAbs ∧
    (serBigInt x).2.declared = some (serBigInt x).2.elems.length := by
  refine ⟨ser_sign_spec x hx, ?_, ser_len _⟩
  have : x.val.natAbs = val x.mag := by
    obtain ⟨s, m⟩ := x
    obtain ⟨_, hs⟩ := hx
    cases s with
    | nosign =>
      have : m = [] := hs.mp rfl
      subst this; simp [BigInt.val, val]
    | plus => simp [BigInt.val]
    | minus => simp [BigInt.val]
  rw [this]
  exact ser_spec x.mag hx.1

/-- ANY `(sign, sequence)` pair deserializes to the canonical value it denotes — inconsistent pairs
    (sign 0 with non-zero digits, sign ±1 with zero digits) are canonicalised exactly like
    `from_biguint` — and invalid signs are rejected -/
theorem bigint_de_val (v : Int) (hint : Option Nat) (ws : List Nat) (h : Below (2 ^ 32) ws) :
    deBigInt v hint ws =
      if v = -1 ∨ v = 0 ∨ v = 1 then some (BigInt.ofInt (v * ((Nat.ofDigits (2 ^ 32) ws : Nat) : Int))) else none := by
  unfold deBigInt
  rw [(de_val hint ws h).1]
  by_cases h1 : v = -1
  · subst h1
    simp only [sign_de_accept.1, true_or, if_true]
    rw [fromBiguint_minus (ofNat_canon _), ofNat_val]; simp
  · by_cases h2 : v = 0
    · subst h2
      simp [sign_de_accept.2.1, BigInt.fromBiguint, BigInt.ofInt]
    · by_cases h3 : v = 1
      · subst h3
        simp only [sign_de_accept.2.2, or_true, if_true]
        rw [fromBiguint_plus (ofNat_canon _), ofNat_val]; simp
      · simp [sign_de_reject v ⟨h1, h2, h3⟩, h1, h2, h3]

/-- the result of a successful `BigInt` deserialization is always canonical -/
theorem bigint_de_canon (v : Int) (hint : Option Nat) (ws : List Nat) (h : Below (2 ^ 32) ws) (x : BigInt)
    (hx : deBigInt v hint ws = some x) : x.Canon := by
  rw [bigint_de_val v hint ws h] at hx
  split at hx
  · cases hx; exact bigint_ofInt_canon _
  · cases hx

/-- `deserialize(serialize(x)) == x` for every `BigInt` -/
theorem bigint_de_ser (hint : Option Nat) (x : BigInt) (hx : x.Canon) :
    deBigInt (serBigInt x).1 hint (serBigInt x).2.elems = some x := by
  unfold deBigInt serBigInt
  simp only [sign_round_trip, de_ser hint x.mag hx.1]
  obtain ⟨s, m⟩ := x
  obtain ⟨_, hs⟩ := hx
  simp only at hs
  unfold BigInt.fromBiguint
  by_cases h1 : s = .nosign
  · have : m = [] := hs.mp h1
    subst h1; subst this; simp
  · have : m ≠ [] := fun h => h1 (hs.mpr h)
    simp [h1, this]

/-! ## non-vacuity -/

example : (ser [0xffffffff00000001, 0x1]).elems = [1, 0xffffffff, 1] ∧ (ser [0xffffffff00000001, 0x1]).declared = some 3 := by
  decide
example : deBigInt (-1) (some 7) [0, 0, 0] = some ⟨.nosign, []⟩ := by decide
example : deBigInt 0 none [5, 6, 7] = some ⟨.nosign, []⟩ := by decide
example : deBigInt 2 none [5] = none ∧ deBigInt 300 none [5] = none := by decide

end NB
