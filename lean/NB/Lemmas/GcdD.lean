/- helper lemmas for the digit-level layer of C13 (NB.Model.GcdD): every digit-level function equals the
   value-level function of NB.Model.Gcd on the values, mapped back through `ofNat` / `BigInt.ofInt`.
   The loops are stated over `ofNat m` / `BigInt.ofInt i` states (the canonical representations the
   operator theorems return), the public entry points over canonical inputs. -/
import NB.Model.GcdD
import NB.Lemmas.Gcd
import NB.Props.C01
import NB.Props.C02
import NB.Props.C03
import NB.Props.C07
namespace NB.GcdD

/-! ### sizes: `Small a` = the digit count fits `usize` (true of every `Vec`; the right shift of
    `biguint_shr` saturates its digit count at `usize::MAX`, `biguint_shl` panics beyond it) -/

def Small (a : List Nat) : Prop := a.length < NB.C07.USIZE_RANGE

theorem ofNat_length_le {n : Nat} {a : List Nat} (ha : DigitsOk a) (h : n ≤ val a) :
    (ofNat n).length ≤ a.length := by
  by_contra hc
  have hne : ofNat n ≠ [] := by intro e; apply hc; rw [e]; exact Nat.zero_le _
  have h1 := canon_val_ge (ofNat_canon n) hne
  rw [ofNat_val] at h1
  have h2 := val_lt ha
  have h3 : B ^ a.length ≤ B ^ ((ofNat n).length - 1) := Nat.pow_le_pow_right B_pos (by omega)
  omega

theorem small_mono {x y : Nat} (h : x ≤ y) (hy : Small (ofNat y)) : Small (ofNat x) := by
  have := ofNat_length_le (n := x) (ofNat_digitsOk y) (by rw [ofNat_val]; exact h)
  unfold Small at *; omega

theorem small_of_le {x : Nat} {a : List Nat} (ha : DigitsOk a) (h : x ≤ val a) (hs : Small a) :
    Small (ofNat x) := by
  have := ofNat_length_le ha h
  unfold Small at *; omega

/-! ### trailing zeros -/

/-- the exponent of two is unique -/
theorem valuation_unique {x t m s : Nat} (hx : x = 2 ^ t * (2 * m + 1)) (hd : 2 ^ s ∣ x)
    (ho : (x / 2 ^ s) % 2 = 1) : s = t := by
  subst hx
  have hle : s ≤ t := (NB.C07.pow_two_dvd_odd t m s).mp (Nat.mod_eq_zero_of_dvd hd)
  by_contra hne
  obtain ⟨k, hk⟩ : ∃ k, t = s + 1 + k := ⟨t - s - 1, by omega⟩
  subst hk
  have e : 2 ^ (s + 1 + k) * (2 * m + 1) = 2 ^ s * (2 * (2 ^ k * (2 * m + 1))) := by
    rw [pow_add, pow_add]; ring
  rw [e, Nat.mul_div_cancel_left _ (Nat.two_pow_pos s)] at ho
  omega

/-- `twos` on digits (through `trailing_zeros`) is `twos` on the value -/
theorem twos_eq {a : List Nat} (ha : DigitsOk a) : twos a = NB.Gcd.twos (val a) := by
  obtain ⟨h0, h1⟩ := NB.C07.trailingZerosU_spec a ha
  unfold twos
  by_cases hz : val a = 0
  · rw [h0 hz, hz]; simp [NB.Gcd.twos]
  · obtain ⟨t, m, e, hv⟩ := h1 hz
    rw [e]
    obtain ⟨d1, d2⟩ := NB.Gcd.twos_spec hz
    exact (valuation_unique hv d1 d2).symm

theorem twos_ofNat (n : Nat) : twos (ofNat n) = NB.Gcd.twos n := by
  rw [twos_eq (ofNat_digitsOk n), ofNat_val]

/-- a non-zero value has fewer trailing zeros than bits -/
theorem twos_lt {n : Nat} (hn : n ≠ 0) : NB.Gcd.twos n < NB.C07.BITS * (ofNat n).length := by
  have h1 := Nat.le_of_dvd (Nat.pos_of_ne_zero hn) (NB.Gcd.twos_spec hn).1
  have h2 := val_lt (ofNat_digitsOk n)
  rw [ofNat_val, NB.C07.B_pow] at h2
  exact (Nat.pow_lt_pow_iff_right (by decide)).mp (Nat.lt_of_le_of_lt h1 h2)

/-! ### operators on `ofNat` states -/

theorem shr_ofNat (n k : Nat) (hs : Small (ofNat n)) :
    NB.C07.biguintShr (ofNat n) (k : Int) = .ok (ofNat (n / 2 ^ k)) := by
  have := NB.C07.shr_spec (ofNat n) (k : Int) (ofNat_canon n) (by omega) hs
  simpa [ofNat_val] using this

theorem shl_ofNat (n k : Nat) (hk : k / NB.C07.BITS < NB.C07.USIZE_RANGE) :
    NB.C07.biguintShl (ofNat n) (k : Int) = .ok (ofNat (n * 2 ^ k)) := by
  have := NB.C07.shl_spec (ofNat n) (k : Int) (ofNat_canon n) (by omega) (by intro _; simpa using hk)
  simpa [ofNat_val] using this

theorem cmp_ofNat (x y : Nat) : cmpSlice (ofNat x) (ofNat y) = compare x y := by
  rw [cmpSlice_spec (ofNat_canon x) (ofNat_canon y), ofNat_val, ofNat_val]

theorem subAssign_ofNat (P : Params) (x y : Nat) :
    subAssign P (ofNat x) (ofNat y) = if x < y then .error .underflow else .ok (ofNat (x - y)) := by
  rw [subAssign_spec P _ _ (ofNat_canon x) (ofNat_canon y), ofNat_val, ofNat_val]

theorem subRefVal_ofNat (P : Params) (x y : Nat) :
    subRefVal P (ofNat x) (ofNat y) = if x < y then .error .underflow else .ok (ofNat (x - y)) := by
  rw [subRefVal_spec P _ _ (ofNat_canon x) (ofNat_canon y), ofNat_val, ofNat_val]

theorem addAssign_ofNat (P : Params) (x y : Nat) : addAssign P (ofNat x) (ofNat y) = ofNat (x + y) := by
  rw [addAssign_spec P _ _ (ofNat_canon x) (ofNat_canon y), ofNat_val, ofNat_val]

theorem mulRef_ofNat (P : Params) (hP : P.ValidMul) (x y : Nat) :
    NB.Mul.mulRef P (ofNat x) (ofNat y) = .ok (ofNat (x * y)) := by
  rw [mul_spec P hP _ _ (ofNat_canon x) (ofNat_canon y), ofNat_val, ofNat_val]

theorem divRef_ofNat (P : Params) (x y : Nat) :
    divRef P (ofNat x) (ofNat y) = if y = 0 then .error .divzero else .ok (ofNat (x / y)) := by
  rw [divRef_spec P _ _ (ofNat_canon x) (ofNat_canon y), ofNat_val, ofNat_val]
  simp only [ofNat_eq_nil]

theorem modFloor_ofNat (P : Params) (x y : Nat) :
    modFloor P (ofNat x) (ofNat y) = if y = 0 then .error .divzero else .ok (ofNat (x % y)) := by
  rw [modFloor_spec P _ _ (ofNat_canon x) (ofNat_canon y), ofNat_val, ofNat_val]
  simp only [ofNat_eq_nil]

theorem remRef_ofNat (P : Params) (x y : Nat) :
    remRef P (ofNat x) (ofNat y) = if y = 0 then .error .divzero else .ok (ofNat (x % y)) := by
  rw [remRef_spec P _ _ (ofNat_canon x) (ofNat_canon y), ofNat_val, ofNat_val]
  simp only [ofNat_eq_nil]

/-! ### Stein's loop -/

/-- one pass of the loop body on canonical states -/
theorem steinStep_ofNat (P : Params) (m n : Nat) (hs : Small (ofNat m)) :
    steinStep P (ofNat m) (ofNat n) =
      (if n > m >>> NB.Gcd.twos m then
        (if n < m >>> NB.Gcd.twos m then .error .underflow
         else .ok (ofNat (n - m >>> NB.Gcd.twos m), ofNat (m >>> NB.Gcd.twos m)))
       else
        (if m >>> NB.Gcd.twos m < n then .error .underflow
         else .ok (ofNat (m >>> NB.Gcd.twos m - n), ofNat n))) := by
  unfold steinStep
  rw [twos_ofNat, shr_ofNat m _ hs, ← Nat.shiftRight_eq_div_pow]
  simp only [cmp_ofNat]
  by_cases hgt : n > m >>> NB.Gcd.twos m
  · have hc : compare n (m >>> NB.Gcd.twos m) = .gt := Nat.compare_eq_gt.mpr hgt
    simp only [hc, hgt, beq_self_eq_true, if_true, subAssign_ofNat]
    by_cases hlt : n < m >>> NB.Gcd.twos m <;> simp [hlt]
  · have hc : (compare n (m >>> NB.Gcd.twos m) == Ordering.gt) = false := by
      rcases Nat.lt_or_eq_of_le (Nat.le_of_not_gt hgt) with h | h
      · rw [Nat.compare_eq_lt.mpr h]; rfl
      · rw [Nat.compare_eq_eq.mpr h]; rfl
    simp only [hc, hgt, if_false, Bool.false_eq_true, subAssign_ofNat]

/-- the digit-level loop refines the value-level loop, any fuel -/
theorem steinLoop_refines (P : Params) : ∀ (fuel m n : Nat), Small (ofNat m) → Small (ofNat n) →
    steinLoop P fuel (ofNat m) (ofNat n) = (NB.Gcd.steinLoop fuel m n).map ofNat := by
  intro fuel
  induction fuel with
  | zero => intro m n _ _; rfl
  | succ fuel ih =>
    intro m n hm hn
    unfold steinLoop NB.Gcd.steinLoop
    by_cases h0 : m = 0
    · subst h0; simp [ofNat_zero]; rfl
    · have hne : ofNat m ≠ [] := fun e => h0 (ofNat_eq_nil.mp e)
      simp only [hne, if_false, ne_eq, h0, not_false_eq_true, if_true, steinStep_ofNat P m n hm]
      have hle : m >>> NB.Gcd.twos m ≤ m := by
        rw [Nat.shiftRight_eq_div_pow]; exact Nat.div_le_self _ _
      have hs1 : Small (ofNat (m >>> NB.Gcd.twos m)) := small_mono hle hm
      generalize m >>> NB.Gcd.twos m = m1 at *
      by_cases hgt : n > m1
      · have h1 : ¬ n < m1 := by omega
        simp only [hgt, if_true, h1, if_false]
        exact ih (n - m1) m1 (small_mono (Nat.sub_le _ _) hn) hs1
      · have h1 : ¬ m1 < n := by omega
        simp only [hgt, if_false]
        exact ih (m1 - n) n (small_mono (Nat.sub_le _ _) hs1) hn

/-! ### gcd, lcm -/

theorem gcd_ofNat (P : Params) (x y : Nat) (hx : Small (ofNat x)) (hy : Small (ofNat y)) :
    gcd P (ofNat x) (ofNat y) = (NB.Gcd.gcd x y).map ofNat := by
  unfold gcd NB.Gcd.gcd
  simp only [ofNat_eq_nil]
  by_cases h1 : x = 0
  · simp [h1]; rfl
  · by_cases h2 : y = 0
    · simp [h1, h2]; rfl
    · simp only [h1, h2, if_false, twos_ofNat]
      rw [shr_ofNat y _ hy, ← Nat.shiftRight_eq_div_pow]
      have hle : y >>> NB.Gcd.twos y ≤ y := by
        rw [Nat.shiftRight_eq_div_pow]; exact Nat.div_le_self _ _
      have hs1 : Small (ofNat (y >>> NB.Gcd.twos y)) := small_mono hle hy
      have hf : steinFuel (ofNat x) (ofNat (y >>> NB.Gcd.twos y)) = NB.Gcd.steinFuel x (y >>> NB.Gcd.twos y) := by
        unfold steinFuel; rw [ofNat_val, ofNat_val]
      simp only [hf, steinLoop_refines P _ x _ hx hs1]
      cases NB.Gcd.steinLoop (NB.Gcd.steinFuel x (y >>> NB.Gcd.twos y)) x (y >>> NB.Gcd.twos y) with
      | error e => rfl
      | ok r =>
        simp only [Except.map]
        have hk : min (NB.Gcd.twos y) (NB.Gcd.twos x) / NB.C07.BITS < NB.C07.USIZE_RANGE := by
          have := twos_lt h1
          have h3 : min (NB.Gcd.twos y) (NB.Gcd.twos x) / NB.C07.BITS < (ofNat x).length := by
            apply Nat.div_lt_of_lt_mul
            have : min (NB.Gcd.twos y) (NB.Gcd.twos x) ≤ NB.Gcd.twos x := Nat.min_le_right _ _
            omega
          unfold Small at hx; omega
        rw [shl_ofNat r _ hk, Nat.shiftLeft_eq]

/-- `BigUint::gcd` at digit level refines the value-level model -/
theorem gcd_refines (P : Params) (a b : List Nat) (ha : Canon a) (hb : Canon b) (hsa : Small a) (hsb : Small b) :
    gcd P a b = (NB.Gcd.gcd (val a) (val b)).map ofNat := by
  have ea := canon_eq_ofNat ha
  have eb := canon_eq_ofNat hb
  have := gcd_ofNat P (val a) (val b) (by rw [← ea]; exact hsa) (by rw [← eb]; exact hsb)
  rwa [← ea, ← eb] at this

theorem gcd_ok (P : Params) (x y : Nat) (hx : Small (ofNat x)) (hy : Small (ofNat y)) :
    gcd P (ofNat x) (ofNat y) = .ok (ofNat (Nat.gcd x y)) := by
  rw [gcd_ofNat P x y hx hy, NB.Gcd.gcd_ok]; rfl

theorem divMul_ofNat (P : Params) (hP : P.ValidMul) (x g y : Nat) :
    divMul P (ofNat x) (ofNat g) (ofNat y) = if g = 0 then .error .divzero else .ok (ofNat (x / g * y)) := by
  unfold divMul
  rw [divRef_ofNat]
  by_cases hg : g = 0
  · simp [hg]
  · simp only [hg, if_false, mulRef_ofNat P hP]

theorem lcm_ofNat (P : Params) (hP : P.ValidMul) (x y : Nat) (hx : Small (ofNat x)) (hy : Small (ofNat y)) :
    lcm P (ofNat x) (ofNat y) = (NB.Gcd.lcm x y).map ofNat := by
  unfold lcm NB.Gcd.lcm
  simp only [ofNat_eq_nil, gcd_ok P x y hx hy, NB.Gcd.gcd_ok, divMul_ofNat P hP, NB.Gcd.udiv]
  by_cases h0 : x = 0 ∧ y = 0
  · simp [h0, ofNat_zero, Except.map]
  · simp only [h0, if_false]
    by_cases hg : Nat.gcd x y = 0
    · simp [hg, Except.map]
    · simp [hg, Except.map]

theorem gcdLcm_ofNat (P : Params) (hP : P.ValidMul) (x y : Nat) (hx : Small (ofNat x)) (hy : Small (ofNat y)) :
    gcdLcm P (ofNat x) (ofNat y) = (NB.Gcd.gcdLcm x y).map (fun p => (ofNat p.1, ofNat p.2)) := by
  unfold gcdLcm NB.Gcd.gcdLcm
  simp only [ofNat_eq_nil, gcd_ok P x y hx hy, NB.Gcd.gcd_ok, divMul_ofNat P hP, NB.Gcd.udiv]
  by_cases hg : Nat.gcd x y = 0
  · simp [hg, ofNat_zero, Except.map]
  · simp [hg, Except.map]

/-! ### multiples, inc, dec -/

theorem isMultipleOf_ofNat (P : Params) (x y : Nat) :
    isMultipleOf P (ofNat x) (ofNat y) = NB.Gcd.isMultipleOf x y := by
  unfold isMultipleOf NB.Gcd.isMultipleOf
  simp only [ofNat_eq_nil, remRef_ofNat, NB.Gcd.umod]
  by_cases hy : y = 0
  · simp [hy]
  · simp [hy, ofNat_eq_nil]

theorem nextMultipleOf_ofNat (P : Params) (x y : Nat) :
    nextMultipleOf P (ofNat x) (ofNat y) = (NB.Gcd.nextMultipleOf x y).map ofNat := by
  unfold nextMultipleOf NB.Gcd.nextMultipleOf
  simp only [modFloor_ofNat, NB.Gcd.umod, NB.Gcd.usub]
  by_cases hy : y = 0
  · simp [hy, Except.map]
  · simp only [hy, if_false, ofNat_eq_nil]
    by_cases hm : x % y = 0
    · simp [hm, Except.map]
    · simp only [hm, if_false, subRefVal_ofNat]
      by_cases hlt : y < x % y
      · simp [hlt, Except.map]
      · simp only [hlt, if_false, addAssign_ofNat, Except.map]
        rw [Nat.add_comm]

theorem prevMultipleOf_ofNat (P : Params) (x y : Nat) :
    prevMultipleOf P (ofNat x) (ofNat y) = (NB.Gcd.prevMultipleOf x y).map ofNat := by
  unfold prevMultipleOf NB.Gcd.prevMultipleOf
  simp only [modFloor_ofNat, NB.Gcd.umod, NB.Gcd.usub]
  by_cases hy : y = 0
  · simp [hy, Except.map]
  · simp only [hy, if_false, subRefVal_ofNat]
    split <;> rfl

theorem inc_ofNat (P : Params) (x : Nat) : inc P (ofNat x) = (NB.Gcd.inc x).map ofNat := by
  unfold inc NB.Gcd.inc
  rw [NB.C07.addAssignU32_spec P _ (ofNat_canon x), ofNat_val]; rfl

theorem dec_ofNat (P : Params) (x : Nat) : dec P (ofNat x) = (NB.Gcd.dec x).map ofNat := by
  unfold dec NB.Gcd.dec NB.Gcd.usub
  by_cases h : x < 1
  · have h0 : x = 0 := by omega
    subst h0
    simp only [ofNat_zero, Nat.lt_one_iff, if_true]
    show subAssign P [] [1] = _
    rw [subAssign_spec P [] [1] canon_nil NB.C07.canon_one]
    simp [val, Except.map]
  · rw [NB.C07.subAssignU32_spec P _ (ofNat_canon x) (by rw [ofNat_val]; omega), ofNat_val]
    simp [h, Except.map]

/-! ### BigInt: operators on `BigInt.ofInt` states -/

theorem div_ofInt (P : Params) (i j : Int) :
    BigInt.div P (BigInt.ofInt i) (BigInt.ofInt j) =
      if j = 0 then .error .divzero else .ok (BigInt.ofInt (Int.tdiv i j)) := by
  rw [bigint_div_spec P _ _ (bigint_ofInt_canon i) (bigint_ofInt_canon j), bigint_ofInt_val, bigint_ofInt_val]

theorem mul_ofInt (P : Params) (hP : P.ValidMul) (i j : Int) :
    NB.Mul.bigintMul P (BigInt.ofInt i) (BigInt.ofInt j) = .ok (BigInt.ofInt (i * j)) := by
  rw [bigint_mul_spec P hP _ _ (bigint_ofInt_canon i) (bigint_ofInt_canon j), bigint_ofInt_val, bigint_ofInt_val]

theorem modFloor_ofInt (P : Params) (i j : Int) :
    BigInt.modFloor P (BigInt.ofInt i) (BigInt.ofInt j) =
      if j = 0 then .error .divzero else .ok (BigInt.ofInt (Int.fmod i j)) := by
  rw [bigint_modFloor_spec P _ _ (bigint_ofInt_canon i) (bigint_ofInt_canon j), bigint_ofInt_val, bigint_ofInt_val]

theorem bzero_eq : bzero = BigInt.ofInt 0 := by rw [ofInt_zero]; rfl

theorem bone_eq : bone = BigInt.ofInt 1 := by
  unfold bone BigInt.ofInt
  simp [ofNat_one]

/-- `x >= zero` through `Ord::cmp` -/
theorem cmp_zero_ofInt (i : Int) : (NB.Core.BigInt.cmp (BigInt.ofInt i) bzero ≠ .lt) ↔ 0 ≤ i := by
  unfold BigInt.ofInt
  by_cases h1 : i < 0
  · simp [h1, NB.Core.BigInt.cmp, NB.Core.Sign.cmp, NB.Core.Sign.disc, bzero]
  · by_cases h2 : i = 0
    · simp [h2, NB.Core.BigInt.cmp, NB.Core.Sign.cmp, NB.Core.Sign.disc, bzero]
    · simp [h1, h2, NB.Core.BigInt.cmp, NB.Core.Sign.cmp, NB.Core.Sign.disc, bzero]
      omega

def ofInt3 (r : Int × Int × Int) : BigInt × BigInt × BigInt :=
  (BigInt.ofInt r.1, BigInt.ofInt r.2.1, BigInt.ofInt r.2.2)

/-! ### BigInt gcd / lcm -/

theorem bigintGcd_ofInt (P : Params) (i j : Int) (hi : Small (ofNat i.natAbs)) (hj : Small (ofNat j.natAbs)) :
    bigintGcd P (BigInt.ofInt i) (BigInt.ofInt j) = (NB.Gcd.bigintGcd i j).map BigInt.ofInt := by
  unfold bigintGcd NB.Gcd.bigintGcd
  rw [ofInt_mag, ofInt_mag, gcd_ofNat P _ _ hi hj]
  cases NB.Gcd.gcd i.natAbs j.natAbs with
  | error e => rfl
  | ok g => simp only [Except.map, NB.Gcd.ofMag, fromBU_ofNat]

theorem bigintLcm_ofInt (P : Params) (hP : P.ValidMul) (i j : Int) (hi : Small (ofNat i.natAbs))
    (hj : Small (ofNat j.natAbs)) :
    bigintLcm P (BigInt.ofInt i) (BigInt.ofInt j) = (NB.Gcd.bigintLcm i j).map BigInt.ofInt := by
  unfold bigintLcm NB.Gcd.bigintLcm
  rw [ofInt_mag, ofInt_mag, lcm_ofNat P hP _ _ hi hj]
  cases NB.Gcd.lcm i.natAbs j.natAbs with
  | error e => rfl
  | ok g => simp only [Except.map, NB.Gcd.ofMag, fromBU_ofNat]

theorem bigintGcdLcm_ofInt (P : Params) (hP : P.ValidMul) (i j : Int) (hi : Small (ofNat i.natAbs))
    (hj : Small (ofNat j.natAbs)) :
    bigintGcdLcm P (BigInt.ofInt i) (BigInt.ofInt j) =
      (NB.Gcd.bigintGcdLcm i j).map (fun p => (BigInt.ofInt p.1, BigInt.ofInt p.2)) := by
  unfold bigintGcdLcm NB.Gcd.bigintGcdLcm
  rw [ofInt_mag, ofInt_mag, gcdLcm_ofNat P hP _ _ hi hj]
  cases NB.Gcd.gcdLcm i.natAbs j.natAbs with
  | error e => rfl
  | ok g => obtain ⟨g, l⟩ := g; simp only [Except.map, NB.Gcd.ofMag, fromBU_ofNat]

/-! ### extended gcd -/

theorem egcdF_ofInt (P : Params) (hP : P.ValidMul) (q x0 x1 : Int) :
    egcdF P (BigInt.ofInt q) (BigInt.ofInt x0) (BigInt.ofInt x1) =
      .ok (BigInt.ofInt (x1 - q * x0), BigInt.ofInt x0) := by
  unfold egcdF
  simp only [mul_ofInt P hP, sub_ofInt]

/-- the digit-level Euclid loop refines the value-level loop, any fuel -/
theorem egcdLoop_refines (P : Params) (hP : P.ValidMul) : ∀ (fuel : Nat) (s0 s1 t0 t1 r0 r1 : Int),
    egcdLoop P fuel (BigInt.ofInt s0) (BigInt.ofInt s1) (BigInt.ofInt t0) (BigInt.ofInt t1)
      (BigInt.ofInt r0) (BigInt.ofInt r1) = (NB.Gcd.egcdLoop fuel s0 s1 t0 t1 r0 r1).map ofInt3 := by
  intro fuel
  induction fuel with
  | zero => intro s0 s1 t0 t1 r0 r1; rfl
  | succ fuel ih =>
    intro s0 s1 t0 t1 r0 r1
    unfold egcdLoop NB.Gcd.egcdLoop
    simp only [ofInt_sign_nosign, div_ofInt, NB.Gcd.idiv]
    by_cases h0 : r0 = 0
    · simp [h0, Except.map, ofInt3]
    · simp only [h0, if_false, ne_eq, not_false_eq_true, if_true, egcdF_ofInt P hP]
      exact ih _ _ _ _ _ _

theorem extendedGcd_ofInt (P : Params) (hP : P.ValidMul) (a b : Int) :
    extendedGcd P (BigInt.ofInt a) (BigInt.ofInt b) = (NB.Gcd.extendedGcd a b).map ofInt3 := by
  unfold extendedGcd NB.Gcd.extendedGcd
  have hf : egcdFuel (BigInt.ofInt b) = NB.Gcd.egcdFuel b := by
    unfold egcdFuel NB.Gcd.egcdFuel; rw [ofInt_mag, ofNat_val]
  rw [hf]
  have h01 := egcdLoop_refines P hP (NB.Gcd.egcdFuel b) 0 1 1 0 b a
  rw [← bzero_eq, ← bone_eq] at h01
  rw [h01]
  cases NB.Gcd.egcdLoop (NB.Gcd.egcdFuel b) 0 1 1 0 b a with
  | error e => rfl
  | ok r =>
    obtain ⟨r1, s1, t1⟩ := r
    simp only [Except.map, ofInt3, cmp_zero_ofInt, ge_iff_le]
    by_cases hr : 0 ≤ r1
    · simp [hr]
    · simp only [hr, if_false, bzero_eq, sub_ofInt]

theorem extendedGcdLcm_ofInt (P : Params) (hP : P.ValidMul) (a b : Int) :
    extendedGcdLcm P (BigInt.ofInt a) (BigInt.ofInt b) =
      (NB.Gcd.extendedGcdLcm a b).map (fun r => (ofInt3 r.1, BigInt.ofInt r.2)) := by
  unfold extendedGcdLcm NB.Gcd.extendedGcdLcm
  rw [extendedGcd_ofInt P hP]
  cases NB.Gcd.extendedGcd a b with
  | error e => rfl
  | ok r =>
    obtain ⟨g, x, y⟩ := r
    simp only [Except.map, ofInt3, ofInt_sign_nosign, ofInt_mag, divMul_ofNat P hP, NB.Gcd.udiv]
    by_cases hg : g = 0
    · simp [hg, bzero_eq]
    · have hg' : g.natAbs ≠ 0 := by omega
      simp only [hg, hg', if_false, NB.Gcd.ofMag, fromBU_ofNat]

/-! ### BigInt multiples, inc, dec -/

theorem bigintIsMultipleOf_ofInt (P : Params) (a b : Int) :
    bigintIsMultipleOf P (BigInt.ofInt a) (BigInt.ofInt b) = NB.Gcd.bigintIsMultipleOf a b := by
  unfold bigintIsMultipleOf NB.Gcd.bigintIsMultipleOf
  rw [ofInt_mag, ofInt_mag, isMultipleOf_ofNat]

theorem bigintModFloor_refines (P : Params) (a b : Int) :
    BigInt.modFloor P (BigInt.ofInt a) (BigInt.ofInt b) = (NB.Gcd.bigintModFloor a b).map BigInt.ofInt := by
  rw [modFloor_ofInt]
  by_cases hb : b = 0
  · subst hb; rw [NB.Gcd.bigintModFloor_zero]; rfl
  · rw [NB.Gcd.bigintModFloor_ok a hb]; simp [hb, Except.map]

theorem bigintNextMultipleOf_ofInt (P : Params) (a b : Int) :
    bigintNextMultipleOf P (BigInt.ofInt a) (BigInt.ofInt b) =
      (NB.Gcd.bigintNextMultipleOf a b).map BigInt.ofInt := by
  unfold bigintNextMultipleOf NB.Gcd.bigintNextMultipleOf
  rw [bigintModFloor_refines]
  cases NB.Gcd.bigintModFloor a b with
  | error e => rfl
  | ok m =>
    simp only [Except.map, ofInt_sign_nosign]
    by_cases hm : m = 0
    · simp [hm]
    · simp only [hm, if_false, sub_ofInt, add_ofInt]

theorem bigintPrevMultipleOf_ofInt (P : Params) (a b : Int) :
    bigintPrevMultipleOf P (BigInt.ofInt a) (BigInt.ofInt b) =
      (NB.Gcd.bigintPrevMultipleOf a b).map BigInt.ofInt := by
  unfold bigintPrevMultipleOf NB.Gcd.bigintPrevMultipleOf
  rw [bigintModFloor_refines]
  cases NB.Gcd.bigintModFloor a b with
  | error e => rfl
  | ok m => simp only [Except.map, sub_ofInt]

theorem bigintInc_ofInt (P : Params) (a : Int) :
    bigintInc P (BigInt.ofInt a) = (NB.Gcd.bigintInc a).map BigInt.ofInt := by
  unfold bigintInc NB.Gcd.bigintInc
  rw [addU_spec P _ 1 (bigint_ofInt_canon a) (by decide), bigint_ofInt_val]; rfl

theorem bigintDec_ofInt (P : Params) (a : Int) :
    bigintDec P (BigInt.ofInt a) = (NB.Gcd.bigintDec a).map BigInt.ofInt := by
  unfold bigintDec NB.Gcd.bigintDec
  rw [subU_spec P _ 1 (bigint_ofInt_canon a) (by decide), bigint_ofInt_val]; rfl

end NB.GcdD
