//! stream C03: division (all conventions, checked forms, internal Knuth-D hooks)
use crate::wire::*;
use num_bigint::{BigInt, BigUint};
use num_integer::Integer;
use num_traits::{CheckedDiv, CheckedEuclid, Euclid};

fn pair_u(p: &(BigUint, BigUint)) -> String {
    format!("ok {} {}", show_u(&p.0), show_u(&p.1))
}
fn pair_i(p: &(BigInt, BigInt)) -> String {
    format!("ok {} {}", show_i(&p.0), show_i(&p.1))
}
fn opt_pair_u(p: &Option<(BigUint, BigUint)>) -> String {
    match p {
        Some(p) => format!("some {} {}", show_u(&p.0), show_u(&p.1)),
        None => "none".to_string(),
    }
}
fn opt_pair_i(p: &Option<(BigInt, BigInt)>) -> String {
    match p {
        Some(p) => format!("some {} {}", show_i(&p.0), show_i(&p.1)),
        None => "none".to_string(),
    }
}

pub fn handle(op: &str, a: &[&str]) -> Option<String> {
    Some(match (op, a) {
        // ---- BigUint
        ("u.div", [x, y]) => ok_u(&(&parse_u(x)? / &parse_u(y)?)),
        ("u.div_vv", [x, y]) => ok_u(&(parse_u(x)? / parse_u(y)?)),
        ("u.rem", [x, y]) => ok_u(&(&parse_u(x)? % &parse_u(y)?)),
        ("u.rem_vv", [x, y]) => ok_u(&(parse_u(x)? % parse_u(y)?)),
        ("u.div_rem", [x, y]) => pair_u(&parse_u(x)?.div_rem(&parse_u(y)?)),
        ("u.div_assign", [x, y]) => {
            let mut v = parse_u(x)?;
            v /= &parse_u(y)?;
            ok_u(&v)
        }
        ("u.rem_assign", [x, y]) => {
            let mut v = parse_u(x)?;
            v %= &parse_u(y)?;
            ok_u(&v)
        }
        ("u.div_floor", [x, y]) => ok_u(&parse_u(x)?.div_floor(&parse_u(y)?)),
        ("u.mod_floor", [x, y]) => ok_u(&parse_u(x)?.mod_floor(&parse_u(y)?)),
        ("u.div_mod_floor", [x, y]) => pair_u(&parse_u(x)?.div_mod_floor(&parse_u(y)?)),
        ("u.div_ceil", [x, y]) => ok_u(&Integer::div_ceil(&parse_u(x)?, &parse_u(y)?)),
        ("u.div_euclid", [x, y]) => ok_u(&Euclid::div_euclid(&parse_u(x)?, &parse_u(y)?)),
        ("u.rem_euclid", [x, y]) => ok_u(&Euclid::rem_euclid(&parse_u(x)?, &parse_u(y)?)),
        ("u.div_rem_euclid", [x, y]) => pair_u(&Euclid::div_rem_euclid(&parse_u(x)?, &parse_u(y)?)),
        ("u.checked_div", [x, y]) => opt_u(&CheckedDiv::checked_div(&parse_u(x)?, &parse_u(y)?)),
        ("u.checked_div_euclid", [x, y]) => opt_u(&CheckedEuclid::checked_div_euclid(&parse_u(x)?, &parse_u(y)?)),
        ("u.checked_rem_euclid", [x, y]) => opt_u(&CheckedEuclid::checked_rem_euclid(&parse_u(x)?, &parse_u(y)?)),
        ("u.checked_div_rem_euclid", [x, y]) => {
            opt_pair_u(&CheckedEuclid::checked_div_rem_euclid(&parse_u(x)?, &parse_u(y)?))
        }
        // ---- BigInt
        ("i.div", [x, y]) => ok_i(&(&parse_i(x)? / &parse_i(y)?)),
        ("i.rem", [x, y]) => ok_i(&(&parse_i(x)? % &parse_i(y)?)),
        ("i.div_rem", [x, y]) => pair_i(&parse_i(x)?.div_rem(&parse_i(y)?)),
        ("i.div_assign", [x, y]) => {
            let mut v = parse_i(x)?;
            v /= &parse_i(y)?;
            ok_i(&v)
        }
        ("i.rem_assign", [x, y]) => {
            let mut v = parse_i(x)?;
            v %= &parse_i(y)?;
            ok_i(&v)
        }
        ("i.div_floor", [x, y]) => ok_i(&parse_i(x)?.div_floor(&parse_i(y)?)),
        ("i.mod_floor", [x, y]) => ok_i(&parse_i(x)?.mod_floor(&parse_i(y)?)),
        ("i.div_mod_floor", [x, y]) => pair_i(&parse_i(x)?.div_mod_floor(&parse_i(y)?)),
        ("i.div_ceil", [x, y]) => ok_i(&Integer::div_ceil(&parse_i(x)?, &parse_i(y)?)),
        ("i.div_euclid", [x, y]) => ok_i(&Euclid::div_euclid(&parse_i(x)?, &parse_i(y)?)),
        ("i.rem_euclid", [x, y]) => ok_i(&Euclid::rem_euclid(&parse_i(x)?, &parse_i(y)?)),
        ("i.div_rem_euclid", [x, y]) => pair_i(&Euclid::div_rem_euclid(&parse_i(x)?, &parse_i(y)?)),
        ("i.checked_div", [x, y]) => opt_i(&CheckedDiv::checked_div(&parse_i(x)?, &parse_i(y)?)),
        ("i.checked_div_euclid", [x, y]) => opt_i(&CheckedEuclid::checked_div_euclid(&parse_i(x)?, &parse_i(y)?)),
        ("i.checked_rem_euclid", [x, y]) => opt_i(&CheckedEuclid::checked_rem_euclid(&parse_i(x)?, &parse_i(y)?)),
        ("i.checked_div_rem_euclid", [x, y]) => {
            opt_pair_i(&CheckedEuclid::checked_div_rem_euclid(&parse_i(x)?, &parse_i(y)?))
        }
        // ---- internal hooks (raw digit slices)
        #[cfg(num_bigint_verif)]
        ("raw.div_rem_core", [x, y]) => {
            let a = parse_limbs(x)?;
            let b = parse_limbs(y)?;
            // preconditions of div_rem_core; anything else is not a valid request
            if !(a.len() >= b.len() && b.len() > 1 && (b[b.len() - 1] >> 63) == 1) {
                return None;
            }
            let (q, r) = num_bigint::verif::div_rem_core(num_bigint::verif::raw(a), &b);
            format!(
                "ok {} {}",
                show_limbs(num_bigint::verif::raw_digits(&q)),
                show_limbs(num_bigint::verif::raw_digits(&r))
            )
        }
        #[cfg(num_bigint_verif)]
        ("raw.submul", [x, y, c]) => {
            let mut a = parse_limbs(x)?;
            let b = parse_limbs(y)?;
            let c = u64::from_str_radix(c, 16).ok()?;
            if a.len() != b.len() {
                return None;
            }
            let borrow = num_bigint::verif::sub_mul_digit_same_len(&mut a, &b, c);
            format!("ok {} {:x}", show_limbs(&a), borrow)
        }
        _ => return None,
    })
}
