/-
  C10 — every overloaded operator form agrees with the canonical big-by-big operation.

  What is proved here (about NB.Model.Scalar, the value-level model of the scalar leaf impls and
  of the promotion layer of src/macros.rs):

  * casts: `promo_lossless` (the `as` cast of `promote_scalars!` preserves every value of the
    source type), `uabs_spec` / `unsignedAbs_spec` (`checked_uabs` incl. `MIN`, where
    `wrapping_neg` wraps);
  * BigUint leaves: `uAddAssign_spec`, `uSubAssign_spec`, `uSubRev_spec`, `uMulAssign_spec`,
    `uDivRev_spec` (the digit-count match), `remAssignScalar_spec` (all 12 scalar types, true
    also at `iN::MIN %= 2^(N-1)`), `uRemRev_spec`;
  * headline: `uScalarForm_spec`, `iScalarForm_spec` — for every operator `+ - * / %`, every
    operand position (`big ∘ s`, `s ∘ big`, `big ∘= s`), every scalar type and EVERY value of that
    type, promotion + leaf impl = the canonical operation on the losslessly converted scalar
    (`canonU` / `canonI`: Nat/Int arithmetic, `Int.tdiv`/`Int.tmod`, panic classes divzero and
    underflow);
  * shifts: `uShl_spec`, `uShr_spec`, `iShl_spec`, `iShlAssign_spec`, `iShr_spec`,
    `iShrAssign_spec` (negative amount → negshift, BigInt `>>` is floor division by `2^k`);
  * powers: `powPrim_spec'`, `uPowBig_spec`, `iPow_spec`, `iPowBig_spec`;
  * folds: `uSum_spec`, `uProduct_spec`, `iSum_spec`, `iProduct_spec`;
  * `shrOracle_spec`: the driver's shift oracle is floor division;
  * one layer down for + and −: `dAddAssign_spec`, `dSubAssign_spec`, `dSubRev_spec` — the
    digit-level leaves (scalar split into `&[lo, hi]`, zero padding of the big operand, `__add2` /
    `sub2` / `sub2rev` of NB.Model.AddSub) return the canonical digits of the value-level leaves,
    using C01's slice theorems.  The analogous link for * / % (digit routines of C02/C03, conversions
    of C08), for the BigInt leaves built on them and for the whole form routing is made in
    NB.Props.C10D (`dUScalarForm_refines`, `dIScalarForm_refines`, model NB.Model.ScalarD).

  NOT in the model (values are immutable): the val/ref permutations, the compound-assignment
  forwarding and the capacity/length-driven operand choice of the forwarding macros.  Those are
  tied only by the in-process form matrix of harness/src/c10.rs.
-/
import NB.Lemmas.Scalar
import NB.Props.C01
import NB.Drv.C10
namespace NB

/-! ## casts and `checked_uabs` -/

/-- `promote_scalars!`: `other as $promo` keeps every value of the scalar type -/
theorem promo_lossless (t : STy) (v : Int) (h : t.InRange v) :
    castTo t.promo v = v ∧ t.promo.InRange v :=
  ⟨castTo_id _ _ (inRange_promo t v h), inRange_promo t v h⟩

/-- `checked_uabs`: sign and exact magnitude for every value incl. `MIN` (whose `wrapping_neg`
    is `MIN` itself and casts to `2^(N-1)`), and the magnitude fits the unsigned type -/
theorem uabs_spec (t : STy) (v : Int) (ht : t.signed = true) (h : t.InRange v) :
    checkedUabs t v = (if v ≥ 0 then .positive v else .negative (-v)) ∧ t.unsignedOf.InRange (|v|) := by
  cases t <;> simp [STy.signed] at ht <;>
    simp [STy.InRange, STy.lo, STy.hi, STy.signed, STy.half] at h <;>
    (constructor
     · unfold checkedUabs wrappingNeg castTo
       simp only [STy.unsignedOf, STy.signed, STy.half, STy.modulus, Bool.false_eq_true, if_false, if_true]
       split <;> (congr 1; omega)
     · simp only [STy.InRange, STy.lo, STy.hi, STy.unsignedOf, STy.signed, STy.modulus, Bool.false_eq_true, if_false]
       rcases abs_cases v with ⟨e, _⟩ | ⟨e, _⟩ <;> rw [e] <;> constructor <;> omega)

/-- core `iN::unsigned_abs` -/
theorem unsignedAbs_spec (t : STy) (v : Int) (ht : t.signed = true) (h : t.InRange v) :
    unsignedAbs t v = |v| := by
  cases t <;> simp [STy.signed] at ht <;>
    simp [STy.InRange, STy.lo, STy.hi, STy.signed, STy.half] at h <;>
    (unfold unsignedAbs wrappingNeg castTo
     simp only [STy.unsignedOf, STy.signed, STy.half, STy.modulus, Bool.false_eq_true, if_false, if_true]
     rcases abs_cases v with ⟨e, _⟩ | ⟨e, _⟩ <;> rw [e] <;> split <;> omega)
example : checkedUabs .i8 (-128) = .negative 128 := by decide
example : checkedUabs .i128 (-170141183460469231731687303715884105728)
    = .negative 170141183460469231731687303715884105728 := by decide

/-! ## BigUint leaves -/

theorem scalarMul_spec (a b : Nat) : scalarMul a b = a * b := by
  unfold scalarMul
  split
  · subst_vars; simp
  · split
    · subst_vars; simp
    · split
      · rename_i h; rw [← h]
      · rfl

theorem uAddAssign_spec (t : STy) (a s : Nat) : uAddAssign t a s = a + s := by
  have hs : s % B + B * (s / B) = s := Nat.mod_add_div s B
  unfold uAddAssign
  cases t <;> simp only [] <;> (try (split <;> omega))
  · split
    · rename_i h
      have : s % B = s := by rw [h] at hs; omega
      rw [this]; split <;> omega
    · omega

theorem uSubAssign_spec (t : STy) (a s : Nat) :
    uSubAssign t a s = if a < s then .error .underflow else .ok (a - s) := by
  have hs : s % B + B * (s / B) = s := Nat.mod_add_div s B
  unfold uSubAssign
  cases t <;> simp only [hs]

theorem uSubRev_spec (t : STy) (s a : Nat) :
    uSubRev t s a = if s < a then .error .underflow else .ok (s - a) := by
  have hs : s % B + B * (s / B) = s := Nat.mod_add_div s B
  unfold uSubRev
  cases t <;> simp only [hs] <;>
    (by_cases h0 : a = 0
     · have : nd a = 0 := (nd_zero_iff a).2 h0
       subst h0; simp [this]
     · have : nd a ≠ 0 := fun e => h0 ((nd_zero_iff a).1 e)
       simp [this])

theorem uMulAssign_spec (t : STy) (a s : Nat) : uMulAssign t a s = a * s := by
  have hs : s % B + B * (s / B) = s := Nat.mod_add_div s B
  unfold uMulAssign
  cases t <;> simp only [hs, scalarMul_spec] <;> split <;> rfl

theorem uDiv_spec (t : STy) (a s : Nat) :
    uDiv t a s = if s = 0 then .error .divzero else .ok (a / s) := by
  unfold uDiv; cases t <;> rfl

theorem uRem_spec (t : STy) (a s : Nat) :
    uRem t a s = if s = 0 then .error .divzero else .ok (a % s) := by
  unfold uRem; cases t <;> rfl

/-- scalar / big through the digit-count match: a big operand with more digits than the scalar
    type holds gives quotient 0 -/
theorem uDivRev_spec (t : STy) (s a : Nat) (ht : t.signed = false) (hs : (s : Int) ≤ t.hi) :
    uDivRev t s a = if a = 0 then .error .divzero else .ok (s / a) := by
  have hB : B = 18446744073709551616 := rfl
  have hBB : B * B = 340282366920938463463374607431768211456 := by decide
  by_cases h0 : a = 0
  · subst h0
    have h00 : nd 0 = 0 := (nd_zero_iff 0).2 rfl
    unfold uDivRev; cases t <;> simp only [h00] <;> rfl
  · have hn0 : nd a ≠ 0 := fun e => h0 ((nd_zero_iff a).1 e)
    simp only [h0, if_false]
    unfold uDivRev
    cases t <;> simp [STy.signed] at ht <;>
      simp only [STy.hi, STy.signed, STy.modulus, Bool.false_eq_true, if_false] at hs <;> simp only []
    all_goals
      match hnd : nd a with
      | 0 => exact absurd hnd hn0
      | 1 => rfl
      | 2 =>
        first
        | rfl
        | (simp only []
           have := (nd_two a hnd).1
           rw [Nat.div_eq_of_lt (by omega)])
      | n + 3 =>
        simp only []
        first
        | (have := nd_ge_two a (by omega); rw [Nat.div_eq_of_lt (by omega)])
        | (have := nd_ge_three a (by omega)
           rw [Nat.div_eq_of_lt (by omega)])

/-- `scalar %= &BigUint` (impl_rem_assign_scalar!) is the truncated remainder for every scalar
    type and every scalar value; in particular `iN::MIN %= 2^(N-1)` is 0 -/
theorem remAssignScalar_spec (t : STy) (s : Int) (a : Nat) (h : t.InRange s) :
    remAssignScalar t s a = if a = 0 then .error .divzero else .ok (Int.tmod s a) := by
  unfold remAssignScalar toT
  by_cases hfit : (a : Int) ≤ t.hi
  · simp only [hfit, if_true]
    cases a with
    | zero => rfl
    | succ n => simp
  · simp only [hfit, if_false]
    have ha0 : a ≠ 0 := by
      intro e; subst e
      cases t <;> simp [STy.hi, STy.signed, STy.half, STy.modulus] at hfit
    simp only [ha0, if_false]
    -- |s| ≤ hi + 1 ≤ a
    have hle : (s.natAbs : Int) ≤ a := by
      cases t <;> simp [STy.InRange, STy.lo, STy.hi, STy.signed, STy.half, STy.modulus] at h hfit <;> omega
    unfold magOf
    by_cases heq : s.natAbs = a
    · simp only [heq, if_true]
      congr 1
      rcases Int.natAbs_eq s with e | e
      · rw [e, heq, Int.tmod_self]
      · rw [e, heq, Int.neg_tmod, Int.tmod_self]; rfl
    · simp only [heq, if_false]
      congr 1
      have hlt : (s.natAbs : Int) < a := by omega
      by_cases hs : 0 ≤ s
      · rw [Int.tmod_eq_emod_of_nonneg hs, Int.emod_eq_of_lt hs (by omega)]
      · have hs' : 0 ≤ -s := by omega
        have : Int.tmod (-s) a = -s := by
          rw [Int.tmod_eq_emod_of_nonneg hs', Int.emod_eq_of_lt hs' (by omega)]
        have h2 := Int.neg_tmod (-s) a
        rw [neg_neg] at h2
        rw [h2, this, neg_neg]

/-- the D6 inputs -/
example : remAssignScalar .i8 (-128) 128 = .ok 0 := by decide
example : remAssignScalar .i64 (-9223372036854775808) 9223372036854775808 = .ok 0 := by decide
example : remAssignScalar .i8 (-128) 129 = .ok (-128) := by decide

theorem uRemRev_spec (t : STy) (s a : Nat) (hs : t.InRange s) :
    uRemRev t s a = if a = 0 then .error .divzero else .ok (s % a) := by
  unfold uRemRev
  rw [remAssignScalar_spec t s a hs]
  by_cases h0 : a = 0
  · simp [h0]; rfl
  · simp only [h0, if_false]
    show Except.ok (Int.toNat (Int.tmod s a)) = _
    rw [← Int.ofNat_tmod]; rfl

/-! ## BigInt ± scalar -/

theorem iAddU_spec (t : STy) (a : VInt) (u : Nat) (ha : a.Canon) :
    iAddU t a u = .ok (VInt.ofInt (a.val + u)) := by
  refine VInt.canon_cases (P := fun a => iAddU t a u = .ok (VInt.ofInt (a.val + u))) a ha ?_ ?_ ?_
  · simp only [iAddU, VInt.val]; rw [VInt.fromNat_eq]; simp
  · intro m _
    simp only [iAddU, VInt.val]; rw [uAddAssign_spec, VInt.fromNat_eq]; push_cast; rfl
  · intro m _
    simp only [iAddU, VInt.val, cmpNat]
    by_cases h1 : m < u
    · have h2 : ¬ u < m := by omega
      simp only [h1, if_true, uSubRev_spec, h2, if_false]
      show Except.ok (VInt.fromNat (u - m)) = _
      rw [VInt.fromNat_eq]; congr 2; omega
    · by_cases h2 : m = u
      · subst h2; simp only [h1, if_false, if_true]
        rw [VInt.zero_eq]; congr 2; omega
      · have h3 : ¬ m < u := h1
        simp only [h1, h2, if_false, uSubAssign_spec]
        show Except.ok ((VInt.fromNat (m - u)).neg) = _
        rw [VInt.fromNat_eq, VInt.neg_ofInt]; congr 2; omega

theorem iSubU_spec (t : STy) (a : VInt) (u : Nat) (ha : a.Canon) :
    iSubU t a u = .ok (VInt.ofInt (a.val - u)) := by
  refine VInt.canon_cases (P := fun a => iSubU t a u = .ok (VInt.ofInt (a.val - u))) a ha ?_ ?_ ?_
  · simp only [iSubU, VInt.val]; rw [VInt.fromNat_eq, VInt.neg_ofInt]; simp
  · intro m _
    simp only [iSubU, VInt.val, cmpNat]
    by_cases h1 : m < u
    · have h2 : ¬ u < m := by omega
      simp only [h1, if_true, uSubRev_spec, h2, if_false]
      show Except.ok ((VInt.fromNat (u - m)).neg) = _
      rw [VInt.fromNat_eq, VInt.neg_ofInt]; congr 2; omega
    · by_cases h2 : m = u
      · subst h2; simp only [h1, if_false, if_true]
        rw [VInt.zero_eq]; congr 2; omega
      · simp only [h1, h2, if_false, uSubAssign_spec]
        show Except.ok (VInt.fromNat (m - u)) = _
        rw [VInt.fromNat_eq]; congr 2; omega
  · intro m _
    simp only [iSubU, VInt.val]; rw [uAddAssign_spec, VInt.fromNat_eq, VInt.neg_ofInt]
    congr 2; push_cast; ring

theorem uSubI_spec (t : STy) (u : Nat) (a : VInt) (ha : a.Canon) :
    uSubI t u a = .ok (VInt.ofInt (u - a.val)) := by
  unfold uSubI
  rw [iSubU_spec t a u ha]
  show Except.ok ((VInt.ofInt (a.val - u)).neg) = _
  rw [VInt.neg_ofInt]; congr 2 <;> ring

/-- what `checked_uabs` hands to the unsigned leaf -/
theorem uabs_cases (t : STy) (s : Int) (ht : t.signed = true) (h : t.InRange s) :
    (0 ≤ s ∧ checkedUabs t s = .positive s ∧ ((s.toNat : Nat) : Int) = s) ∨
    (s < 0 ∧ checkedUabs t s = .negative (-s) ∧ (((-s).toNat : Nat) : Int) = -s) := by
  have := (uabs_spec t s ht h).1
  by_cases hs : 0 ≤ s
  · left; refine ⟨hs, ?_, by omega⟩
    rw [this]; simp [hs]
  · right; refine ⟨by omega, ?_, by omega⟩
    rw [this]; simp [hs]

theorem iAddS_spec (t : STy) (a : VInt) (s : Int) (ht : t.signed = true) (h : t.InRange s) (ha : a.Canon) :
    iAddS t a s = .ok (VInt.ofInt (a.val + s)) := by
  unfold iAddS
  rcases uabs_cases t s ht h with ⟨_, e, hc⟩ | ⟨_, e, hc⟩ <;> rw [e] <;> simp only []
  · rw [iAddU_spec _ a _ ha, hc]
  · rw [iSubU_spec _ a _ ha, hc]; congr 2 <;> ring

theorem iSubS_spec (t : STy) (a : VInt) (s : Int) (ht : t.signed = true) (h : t.InRange s) (ha : a.Canon) :
    iSubS t a s = .ok (VInt.ofInt (a.val - s)) := by
  unfold iSubS
  rcases uabs_cases t s ht h with ⟨_, e, hc⟩ | ⟨_, e, hc⟩ <;> rw [e] <;> simp only []
  · rw [iSubU_spec _ a _ ha, hc]
  · rw [iAddU_spec _ a _ ha, hc]; congr 2 <;> ring

theorem sSubI_spec (t : STy) (s : Int) (a : VInt) (ht : t.signed = true) (h : t.InRange s) (ha : a.Canon) :
    sSubI t s a = .ok (VInt.ofInt (s - a.val)) := by
  unfold sSubI
  rcases uabs_cases t s ht h with ⟨_, e, hc⟩ | ⟨_, e, hc⟩ <;> rw [e] <;> simp only []
  · rw [uSubI_spec _ _ a ha, hc]
  · rw [iSubU_spec _ a.neg _ (VInt.neg_canon ha), hc, VInt.neg_val]; congr 2 <;> ring

/-! ## BigInt * scalar -/

theorem iMulU_spec (t : STy) (a : VInt) (u : Nat) : iMulU t a u = VInt.ofInt (a.val * u) := by
  unfold iMulU
  rw [uMulAssign_spec, VInt.fromBiguint_toInt, VInt.val_eq_toInt]; congr 1; push_cast; ring

theorem iMulAssignU_spec (t : STy) (a : VInt) (u : Nat) (ha : a.Canon) :
    iMulAssignU t a u = VInt.ofInt (a.val * u) := by
  rw [← iMulU_spec t a u]
  unfold iMulAssignU iMulU
  simp only
  apply VInt.assign_eq_fromBiguint
  intro hs
  rw [uMulAssign_spec, ha.1 hs]; simp

theorem iMulS_spec (t : STy) (a : VInt) (s : Int) (ht : t.signed = true) (h : t.InRange s) :
    iMulS t a s = VInt.ofInt (a.val * s) := by
  unfold iMulS
  rcases uabs_cases t s ht h with ⟨_, e, hc⟩ | ⟨_, e, hc⟩ <;> rw [e] <;> simp only []
  · rw [iMulU_spec, hc]
  · rw [iMulU_spec, hc, VInt.neg_val]; congr 1 <;> ring

theorem iMulAssignS_spec (t : STy) (a : VInt) (s : Int) (ht : t.signed = true) (h : t.InRange s) (ha : a.Canon) :
    iMulAssignS t a s = VInt.ofInt (a.val * s) := by
  unfold iMulAssignS
  rcases uabs_cases t s ht h with ⟨_, e, hc⟩ | ⟨hneg, e, hc⟩ <;> rw [e] <;> simp only []
  · rw [iMulAssignU_spec _ a _ ha, hc]
  · rw [uMulAssign_spec]
    have hu : (-s).toNat ≠ 0 := by omega
    rw [VInt.mk_eq_fromBiguint, VInt.fromBiguint_toInt, VInt.neg_toInt, VInt.val_eq_toInt]
    · congr 1; push_cast; rw [hc]; ring
    · unfold VInt.Canon at ha
      constructor
      · intro hs
        have : a.sign = .nosign := by revert hs; cases a.sign <;> simp [Sign.neg]
        rw [ha.1 this]; simp
      · intro hm
        have : a.mag = 0 := by
          rcases Nat.mul_eq_zero.1 hm with h0 | h0
          · exact h0
          · exact absurd h0 hu
        rw [ha.2 this]; rfl

/-! ## BigInt / scalar, scalar / BigInt, BigInt % scalar, scalar % BigInt -/

theorem iDivU_spec (t : STy) (a : VInt) (u : Nat) :
    iDivU t a u = if u = 0 then .error .divzero else .ok (VInt.ofInt (Int.tdiv a.val u)) := by
  unfold iDivU
  rw [uDiv_spec]
  by_cases h : u = 0
  · simp only [h, if_true]; rfl
  · simp only [h, if_false]
    show Except.ok (VInt.fromBiguint a.sign (a.mag / u)) = _
    rw [VInt.fromBiguint_toInt, VInt.val_eq_toInt, tdiv_sign]

theorem iDivAssignU_spec (t : STy) (a : VInt) (u : Nat) (ha : a.Canon) :
    iDivAssignU t a u = if u = 0 then .error .divzero else .ok (VInt.ofInt (Int.tdiv a.val u)) := by
  rw [← iDivU_spec t a u]
  unfold iDivAssignU iDivU
  rw [uDiv_spec]
  by_cases h : u = 0
  · simp only [h, if_true]; rfl
  · simp only [h, if_false]
    show Except.ok _ = Except.ok _
    congr 1
    apply VInt.assign_eq_fromBiguint
    intro hs; rw [ha.1 hs]; simp

theorem uDivI_spec (t : STy) (u : Nat) (a : VInt) (ht : t.signed = false) (hu : (u : Int) ≤ t.hi) (ha : a.Canon) :
    uDivI t u a = if a.val = 0 then .error .divzero else .ok (VInt.ofInt (Int.tdiv u a.val)) := by
  unfold uDivI
  rw [uDivRev_spec t u a.mag ht hu]
  have hz : a.val = 0 ↔ a.mag = 0 := by
    rw [VInt.val_eq_toInt]
    unfold VInt.Canon at ha
    constructor
    · intro h
      rcases mul_eq_zero.1 h with h1 | h1
      · apply ha.1; revert h1; cases a.sign <;> simp [Sign.toInt]
      · exact_mod_cast h1
    · intro h; rw [h]; simp
  by_cases h : a.mag = 0
  · simp only [h, hz.2 h, if_true]; rfl
  · have h' : ¬ a.val = 0 := fun e => h (hz.1 e)
    simp only [h, h', if_false]
    show Except.ok (VInt.fromBiguint a.sign (u / a.mag)) = _
    rw [VInt.fromBiguint_toInt, VInt.val_eq_toInt, tdiv_sign_right]

theorem neg_mk (a : VInt) : (⟨a.sign.neg, a.mag⟩ : VInt) = a.neg := rfl

theorem iDivS_spec (t : STy) (a : VInt) (s : Int) (ht : t.signed = true) (h : t.InRange s) :
    iDivS t a s = if s = 0 then .error .divzero else .ok (VInt.ofInt (Int.tdiv a.val s)) := by
  unfold iDivS
  rcases uabs_cases t s ht h with ⟨_, e, hc⟩ | ⟨hneg, e, hc⟩ <;> rw [e] <;> simp only []
  · rw [iDivU_spec, hc]
    have : s.toNat = 0 ↔ s = 0 := by omega
    simp only [this]
  · rw [iDivU_spec, hc, VInt.neg_val, Int.neg_tdiv, Int.tdiv_neg, neg_neg]
    have h1 : ¬ (-s).toNat = 0 := by omega
    have h2 : ¬ s = 0 := by omega
    simp only [h1, h2, if_false]

theorem iDivAssignS_spec (t : STy) (a : VInt) (s : Int) (ht : t.signed = true) (h : t.InRange s) (ha : a.Canon) :
    iDivAssignS t a s = if s = 0 then .error .divzero else .ok (VInt.ofInt (Int.tdiv a.val s)) := by
  unfold iDivAssignS
  rcases uabs_cases t s ht h with ⟨_, e, hc⟩ | ⟨hneg, e, hc⟩ <;> rw [e] <;> simp only []
  · rw [iDivAssignU_spec _ a _ ha, hc]
    have : s.toNat = 0 ↔ s = 0 := by omega
    simp only [this]
  · rw [neg_mk, iDivAssignU_spec _ a.neg _ (VInt.neg_canon ha), hc, VInt.neg_val, Int.neg_tdiv, Int.tdiv_neg, neg_neg]
    have h1 : ¬ (-s).toNat = 0 := by omega
    have h2 : ¬ s = 0 := by omega
    simp only [h1, h2, if_false]

theorem sDivI_spec (t : STy) (s : Int) (a : VInt) (ht : t.signed = true) (h : t.InRange s) (ha : a.Canon) :
    sDivI t s a = if a.val = 0 then .error .divzero else .ok (VInt.ofInt (Int.tdiv s a.val)) := by
  have hfit := (uabs_spec t s ht h).2
  have hus : t.unsignedOf.signed = false := by cases t <;> simp [STy.signed] at ht <;> rfl
  unfold sDivI
  rcases uabs_cases t s ht h with ⟨hpos, e, hc⟩ | ⟨hneg, e, hc⟩ <;> rw [e] <;> simp only []
  · rw [uDivI_spec _ _ a hus (by rw [hc]; rw [abs_of_nonneg hpos] at hfit; exact hfit.2) ha, hc]
  · rw [uDivI_spec _ _ a.neg hus (by rw [hc]; rw [abs_of_neg hneg] at hfit; exact hfit.2) (VInt.neg_canon ha),
      hc, VInt.neg_val, Int.neg_tdiv, Int.tdiv_neg, neg_neg]
    have : -a.val = 0 ↔ a.val = 0 := by omega
    simp only [this]

theorem iRemU_spec (t : STy) (a : VInt) (u : Nat) :
    iRemU t a u = if u = 0 then .error .divzero else .ok (VInt.ofInt (Int.tmod a.val u)) := by
  unfold iRemU
  rw [uRem_spec]
  by_cases h : u = 0
  · simp only [h, if_true]; rfl
  · simp only [h, if_false]
    show Except.ok (VInt.fromBiguint a.sign (a.mag % u)) = _
    rw [VInt.fromBiguint_toInt, VInt.val_eq_toInt, tmod_sign]

theorem iRemAssignU_spec (t : STy) (a : VInt) (u : Nat) (ha : a.Canon) :
    iRemAssignU t a u = if u = 0 then .error .divzero else .ok (VInt.ofInt (Int.tmod a.val u)) := by
  rw [← iRemU_spec t a u]
  unfold iRemAssignU iRemU
  rw [uRem_spec]
  by_cases h : u = 0
  · simp only [h, if_true]; rfl
  · simp only [h, if_false]
    show Except.ok _ = Except.ok _
    congr 1
    apply VInt.assign_eq_fromBiguint
    intro hs; rw [ha.1 hs]; simp

theorem uRemI_spec (t : STy) (u : Nat) (a : VInt) (hu : t.InRange u) (ha : a.Canon) :
    uRemI t u a = if a.val = 0 then .error .divzero else .ok (VInt.ofInt (Int.tmod u a.val)) := by
  unfold uRemI
  rw [uRemRev_spec t u a.mag hu]
  have hz : a.val = 0 ↔ a.mag = 0 := by
    rw [VInt.val_eq_toInt]
    unfold VInt.Canon at ha
    constructor
    · intro h
      rcases mul_eq_zero.1 h with h1 | h1
      · apply ha.1; revert h1; cases a.sign <;> simp [Sign.toInt]
      · exact_mod_cast h1
    · intro h; rw [h]; simp
  by_cases h : a.mag = 0
  · simp only [h, hz.2 h, if_true]; rfl
  · have h' : ¬ a.val = 0 := fun e => h (hz.1 e)
    simp only [h, h', if_false]
    show Except.ok (VInt.fromNat (u % a.mag)) = _
    have hsg : a.sign ≠ .nosign := fun e => h (ha.1 e)
    rw [VInt.fromNat_eq, VInt.val_eq_toInt, tmod_sign_right _ _ _ hsg]

theorem iRemS_spec (t : STy) (a : VInt) (s : Int) (ht : t.signed = true) (h : t.InRange s) :
    iRemS t a s = if s = 0 then .error .divzero else .ok (VInt.ofInt (Int.tmod a.val s)) := by
  unfold iRemS
  rw [iRemU_spec, unsignedAbs_spec t s ht h]
  have e1 : ((|s|).toNat : Int) = |s| := by have := abs_nonneg s; omega
  have e2 : (|s|).toNat = 0 ↔ s = 0 := by
    rcases abs_cases s with ⟨e, _⟩ | ⟨e, _⟩ <;> rw [e] <;> omega
  simp only [e1, e2]
  have e3 : Int.tmod a.val |s| = Int.tmod a.val s := by
    rcases abs_cases s with ⟨e, _⟩ | ⟨e, _⟩ <;> rw [e]
    rw [Int.tmod_neg]
  rw [e3]

theorem iRemAssignS_spec (t : STy) (a : VInt) (s : Int) (ht : t.signed = true) (h : t.InRange s) (ha : a.Canon) :
    iRemAssignS t a s = if s = 0 then .error .divzero else .ok (VInt.ofInt (Int.tmod a.val s)) := by
  rw [← iRemS_spec t a s ht h]
  unfold iRemAssignS iRemS
  rw [iRemAssignU_spec _ a _ ha, iRemU_spec]

theorem sRemI_spec (t : STy) (s : Int) (a : VInt) (ht : t.signed = true) (h : t.InRange s) (ha : a.Canon) :
    sRemI t s a = if a.val = 0 then .error .divzero else .ok (VInt.ofInt (Int.tmod s a.val)) := by
  have hfit := (uabs_spec t s ht h).2
  unfold sRemI
  rcases uabs_cases t s ht h with ⟨hpos, e, hc⟩ | ⟨hneg, e, hc⟩ <;> rw [e] <;> simp only []
  · rw [uRemI_spec _ _ a (by rw [hc]; rw [abs_of_nonneg hpos] at hfit; exact hfit) ha, hc]
  · rw [uRemI_spec _ _ a (by rw [hc]; rw [abs_of_neg hneg] at hfit; exact hfit) ha, hc]
    by_cases hz : a.val = 0
    · simp only [hz, if_true]; rfl
    · simp only [hz, if_false]
      show Except.ok ((VInt.ofInt (Int.tmod (-s) a.val)).neg) = _
      rw [VInt.neg_ofInt, Int.neg_tmod, neg_neg]

/-! ## headline: promotion + leaf = canonical operation on the converted scalar -/

/-- the canonical `&BigUint ∘ &BigUint` operations at value level -/
def canonU (op : AOp) (x y : Nat) : Except Panic Nat :=
  match op with
  | .add => .ok (x + y)
  | .sub => if x < y then .error .underflow else .ok (x - y)
  | .mul => .ok (x * y)
  | .div => if y = 0 then .error .divzero else .ok (x / y)
  | .rem => if y = 0 then .error .divzero else .ok (x % y)

/-- the canonical `&BigInt ∘ &BigInt` operations at value level (`/ %` truncate toward zero) -/
def canonI (op : AOp) (x y : Int) : Except Panic VInt :=
  match op with
  | .add => .ok (VInt.ofInt (x + y))
  | .sub => .ok (VInt.ofInt (x - y))
  | .mul => .ok (VInt.ofInt (x * y))
  | .div => if y = 0 then .error .divzero else .ok (VInt.ofInt (Int.tdiv x y))
  | .rem => if y = 0 then .error .divzero else .ok (VInt.ofInt (Int.tmod x y))

/-- operand order of a form: `s ∘ big` puts the converted scalar on the left -/
def placeU (op : AOp) (pos : SPos) (a s : Nat) : Except Panic Nat :=
  match pos with
  | .scalarBig => canonU op s a
  | _ => canonU op a s

def placeI (op : AOp) (pos : SPos) (a s : Int) : Except Panic VInt :=
  match pos with
  | .scalarBig => canonI op s a
  | _ => canonI op a s

/-- EVERY BigUint scalar form (5 operators × 3 positions × 6 unsigned scalar types × every value
    of the type × every big value) returns what the canonical operation returns on
    `BigUint::from(s)`, as value or as panic class -/
theorem uScalarForm_spec (op : AOp) (pos : SPos) (t : STy) (a : Nat) (s : Int)
    (ht : t.signed = false) (h : t.InRange s) :
    uScalarForm op pos t a s = placeU op pos a s.toNat := by
  obtain ⟨hc, hp⟩ := promo_lossless t s h
  have hps : t.promo.signed = false := by rw [promo_signed]; exact ht
  have h0 := inRange_unsigned_nonneg t s ht h
  have hsn : ((s.toNat : Nat) : Int) = s := by omega
  unfold uScalarForm
  simp only [hc]
  cases op <;> cases pos <;>
    simp only [placeU, canonU, uAddAssign_spec, uMulAssign_spec, uSubAssign_spec, uSubRev_spec, uDiv_spec, uRem_spec]
  all_goals
    first
    | rfl
    | rw [Nat.add_comm]
    | rw [Nat.mul_comm]
    | exact uDivRev_spec _ _ _ hps (by rw [hsn]; exact hp.2)
    | exact uRemRev_spec _ _ _ (by rw [hsn]; exact hp)

/-- EVERY BigInt scalar form (5 operators × 3 positions × 12 scalar types × every value of the
    type × every canonical big value) returns what the canonical operation returns on
    `BigInt::from(s)`, as value or as panic class -/
theorem iScalarForm_spec (op : AOp) (pos : SPos) (t : STy) (a : VInt) (s : Int)
    (h : t.InRange s) (ha : a.Canon) :
    iScalarForm op pos t a s = placeI op pos a.val s := by
  obtain ⟨hc, hp⟩ := promo_lossless t s h
  unfold iScalarForm
  simp only [hc]
  by_cases hsg : t.promo.signed = true
  · simp only [hsg, if_true]
    cases op <;> cases pos <;>
      simp only [placeI, canonI, iAddS_spec _ a s hsg hp ha, iSubS_spec _ a s hsg hp ha, sSubI_spec _ s a hsg hp ha,
        iMulS_spec _ a s hsg hp, iMulAssignS_spec _ a s hsg hp ha, iDivS_spec _ a s hsg hp,
        iDivAssignS_spec _ a s hsg hp ha, sDivI_spec _ s a hsg hp ha, iRemS_spec _ a s hsg hp,
        iRemAssignS_spec _ a s hsg hp ha, sRemI_spec _ s a hsg hp ha]
    all_goals (congr 2 <;> ring)
  · have hus : t.promo.signed = false := by simpa using hsg
    have h0 := inRange_unsigned_nonneg _ s hus hp
    have hsn : ((s.toNat : Nat) : Int) = s := by omega
    have hz : s.toNat = 0 ↔ s = 0 := by omega
    simp only [hus, Bool.false_eq_true, if_false]
    cases op <;> cases pos <;>
      simp only [placeI, canonI, iAddU_spec _ a _ ha, iSubU_spec _ a _ ha, uSubI_spec _ _ a ha,
        iMulU_spec, iMulAssignU_spec _ a _ ha, iDivU_spec, iDivAssignU_spec _ a _ ha,
        uDivI_spec _ _ a hus (by rw [hsn]; exact hp.2) ha, iRemU_spec, iRemAssignU_spec _ a _ ha,
        uRemI_spec _ _ a (by rw [hsn]; exact hp) ha, hsn, hz]
    all_goals (congr 2 <;> ring)

/-- non-vacuity: the extreme scalars on concrete operands -/
example : iScalarForm .add .bigScalar .i8 ⟨.plus, 128⟩ (-128) = .ok ⟨.nosign, 0⟩ := by decide
example : iScalarForm .mul .assign .i64 ⟨.minus, 1⟩ (-9223372036854775808)
    = .ok ⟨.plus, 9223372036854775808⟩ := by decide
example : iScalarForm .rem .assign .i16 ⟨.minus, 40000⟩ (-32768) = .ok ⟨.minus, 7232⟩ := by decide
example : uScalarForm .sub .bigScalar .u8 254 255 = .error .underflow := by decide

/-! ## shifts -/

theorem uShl_spec (a : Nat) (k : Int) :
    uShl a k = if k < 0 then .error .negshift
               else if a ≠ 0 ∧ k / 64 ≥ usizeLim then .error .capacity
               else .ok (a * 2 ^ k.toNat) := by
  unfold uShl digitBits
  by_cases hk : k < 0
  · simp only [hk, if_true]
  · simp only [hk, if_false]
    by_cases ha : a = 0
    · subst ha; simp
    · simp only [ha, if_false, ne_eq, not_false_eq_true, true_and]
      rfl

theorem pow_B (n : Nat) : B ^ n = 2 ^ (64 * n) := by
  rw [B_eq, ← pow_mul]

theorem uShr_spec (a : Nat) (k : Int) :
    uShr a k = if k < 0 then .error .negshift else .ok (a / 2 ^ k.toNat) := by
  unfold uShr digitBits usizeLim
  by_cases hk : k < 0
  · simp only [hk, if_true]
  · simp only [hk, if_false]
    by_cases ha : a = 0
    · subst ha; simp
    · simp only [ha, if_false, Nat.cast_ofNat]
      -- when the digit shift already reaches the length the quotient is zero
      have key : ∀ digits : Int, digits ≤ k / 64 → digits ≥ (nd a : Int) → a / 2 ^ k.toNat = 0 := by
        intro digits h1 h2
        have hK : 64 * nd a ≤ k.toNat := by omega
        have hlt : a < 2 ^ k.toNat :=
          calc a < B ^ nd a := (nd_bounds a ha).2
            _ = 2 ^ (64 * nd a) := pow_B _
            _ ≤ 2 ^ k.toNat := Nat.pow_le_pow_right (by decide) hK
        exact Nat.div_eq_of_lt hlt
      by_cases hlim : k / 64 < 18446744073709551616
      · simp only [hlim, if_true]
        by_cases hd : k / 64 ≥ (nd a : Int)
        · simp only [hd, if_true]; rw [key _ (le_refl _) hd]
        · simp only [hd, if_false]
      · simp only [hlim, if_false]
        by_cases hd : (18446744073709551616 - 1 : Int) ≥ (nd a : Int)
        · simp only [hd, if_true]; rw [key _ (by omega) hd]
        · simp only [hd, if_false]

theorem vint_canon_val_zero_iff {a : VInt} (ha : a.Canon) : a.val = 0 ↔ a.mag = 0 := by
  rw [VInt.val_eq_toInt]
  unfold VInt.Canon at ha
  constructor
  · intro h
    rcases mul_eq_zero.1 h with h1 | h1
    · apply ha.1; revert h1; cases a.sign <;> simp [Sign.toInt]
    · exact_mod_cast h1
  · intro h; rw [h]; simp

theorem iShl_spec (a : VInt) (k : Int) (ha : a.Canon) :
    iShl a k = if k < 0 then .error .negshift
               else if a.val ≠ 0 ∧ k / 64 ≥ usizeLim then .error .capacity
               else .ok (VInt.ofInt (a.val * 2 ^ k.toNat)) := by
  unfold iShl
  rw [uShl_spec]
  have hz := vint_canon_val_zero_iff ha
  by_cases hk : k < 0
  · simp only [hk, if_true]; rfl
  · simp only [hk, if_false, ne_eq, hz]
    split
    · rfl
    · show Except.ok (VInt.fromBiguint a.sign (a.mag * 2 ^ k.toNat)) = _
      rw [VInt.fromBiguint_toInt, VInt.val_eq_toInt]; congr 2; push_cast; ring

theorem iShlAssign_spec (a : VInt) (k : Int) (ha : a.Canon) : iShlAssign a k = iShl a k := by
  unfold iShlAssign iShl
  rw [uShl_spec]
  split
  · rfl
  · split
    · rfl
    · show Except.ok _ = Except.ok _
      congr 1
      apply VInt.mk_eq_fromBiguint
      unfold VInt.Canon at ha
      rw [ha]
      have : 2 ^ k.toNat ≠ 0 := by positivity
      constructor
      · intro h; rw [h]; simp
      · intro h; rcases Nat.mul_eq_zero.1 h with h1 | h1
        · exact h1
        · exact absurd h1 this

/-- floor division of a negative number: one more than the truncated quotient unless exact -/
theorem neg_ediv_pow (m d : Nat) (hd : 0 < d) :
    (-(m : Int)) / (d : Int) = -(((m / d + (if d ∣ m then 0 else 1) : Nat)) : Int) := by
  have hm : (m : Int) = (d : Int) * ((m / d : Nat) : Int) + ((m % d : Nat) : Int) := by
    exact_mod_cast (Nat.div_add_mod m d).symm
  have hr : m % d < d := Nat.mod_lt _ hd
  by_cases hdiv : d ∣ m
  · simp only [hdiv, if_true, Nat.add_zero]
    have h0 : m % d = 0 := Nat.mod_eq_zero_of_dvd hdiv
    rw [h0] at hm
    have : (-(m : Int)) = (d : Int) * (-((m / d : Nat) : Int)) := by rw [hm]; simp
    rw [this, Int.mul_ediv_cancel_left _ (by omega)]
  · simp only [hdiv, if_false]
    have h0 : m % d ≠ 0 := fun e => hdiv (Nat.dvd_of_mod_eq_zero e)
    have key := (Int.ediv_emod_unique (a := -(m : Int)) (b := (d : Int)) (r := (d : Int) - ((m % d : Nat) : Int))
      (q := -(((m / d + 1 : Nat)) : Int)) (by omega)).2
      ⟨by rw [Nat.cast_succ]; linarith [hm], by omega, by omega⟩
    exact key.1

theorem shrRoundDown_spec (m : Nat) (k : Int) (hm : 0 < m) (hk : 0 ≤ k)
    (hbits : ∀ K : Nat, 2 ^ 64 ≤ K → m < 2 ^ K) :
    shrRoundDown ⟨.minus, m⟩ k = decide (¬ 2 ^ k.toNat ∣ m) := by
  unfold shrRoundDown u64Lim
  simp only [if_true]
  by_cases h0 : k = 0
  · subst h0; simp
  · have hpos : k > 0 := by omega
    simp only [hpos, decide_true, Bool.true_and]
    by_cases hlt : k < 18446744073709551616
    · simp only [hlt, if_true]
      have := tz_spec m hm k.toNat
      have e : ((tz m : Int) < k) ↔ tz m < k.toNat := by omega
      simp only [e, this]
    · simp only [hlt, if_false]
      have hb := hbits k.toNat (by omega)
      have : ¬ 2 ^ k.toNat ∣ m := fun hd => by
        have := Nat.le_of_dvd hm hd; omega
      simp [this]

/-- `BigInt >> k` is floor division by `2^k` (rounds toward minus infinity), a negative amount
    panics.  `hbits`: the magnitude has fewer than 2^64 bits (the crate's bit counts are `u64`). -/
theorem iShr_spec (a : VInt) (k : Int) (ha : a.Canon)
    (hbits : ∀ K : Nat, 2 ^ 64 ≤ K → a.mag < 2 ^ K) :
    iShr a k = if k < 0 then .error .negshift else .ok (VInt.ofInt (a.val / 2 ^ k.toNat)) := by
  unfold iShr
  rw [uShr_spec]
  by_cases hk : k < 0
  · simp only [hk, if_true]; rfl
  · simp only [hk, if_false]
    show Except.ok _ = Except.ok _
    congr 1
    revert hbits
    refine VInt.canon_cases (P := fun a => (∀ K : Nat, 2 ^ 64 ≤ K → a.mag < 2 ^ K) →
      VInt.fromBiguint a.sign (if shrRoundDown a k = true then uAddAssign .u32 (a.mag / 2 ^ k.toNat) 1
        else a.mag / 2 ^ k.toNat) = VInt.ofInt (a.val / 2 ^ k.toNat)) a ha ?_ ?_ ?_
    · intro _; simp [shrRoundDown, VInt.val, VInt.fromBiguint_nosign]
    · intro m _ _
      have : shrRoundDown ⟨.plus, m⟩ k = false := by simp [shrRoundDown]
      simp only [this, VInt.val]
      rw [VInt.fromBiguint_plus]; congr 1
    · intro m hm hb
      rw [shrRoundDown_spec m k hm (by omega) hb]
      simp only [VInt.val, uAddAssign_spec]
      rw [VInt.fromBiguint_minus]
      congr 1
      have := neg_ediv_pow m (2 ^ k.toNat) (by positivity)
      push_cast at this
      rw [this]
      by_cases hd : 2 ^ k.toNat ∣ m
      · simp [hd]
      · simp [hd]

theorem iShrAssign_spec (a : VInt) (k : Int) (ha : a.Canon) : iShrAssign a k = iShr a k := by
  unfold iShrAssign iShr
  rw [uShr_spec]
  split
  · rfl
  · show Except.ok _ = Except.ok _
    congr 1
    by_cases hrd : shrRoundDown a k = true
    · simp only [hrd, if_true]
      apply VInt.mk_eq_fromBiguint
      have hs : a.sign = .minus := by
        unfold shrRoundDown at hrd
        by_contra hne; simp [hne] at hrd
      rw [hs, uAddAssign_spec]; simp
    · simp only [hrd]
      apply VInt.assign_eq_fromBiguint
      intro hs; rw [ha.1 hs]; simp

example : iShr ⟨.minus, 4⟩ (-1) = .error .negshift := by decide

/-! ## powers -/

theorem powPrim_eq (x e : Nat) : powPrim x e = x ^ e := powPrim_spec x e

theorem uPowBig_spec (x e : Nat) :
    uPowBig x e = if 2 ≤ x ∧ 340282366920938463463374607431768211456 ≤ e then .error .capacity
                  else .ok (x ^ e) := by
  unfold uPowBig u64Lim
  by_cases h1 : x = 1 ∨ e = 0
  · simp only [h1, if_true]
    have : ¬ (2 ≤ x ∧ 340282366920938463463374607431768211456 ≤ e) := by omega
    simp only [this, if_false]
    rcases h1 with h | h <;> subst h <;> simp
  · simp only [h1, if_false]
    by_cases h0 : x = 0
    · subst h0
      have he : e ≠ 0 := fun h => h1 (Or.inr h)
      simp [he]
    · have hx : 2 ≤ x := by omega
      simp only [h0, if_false, hx, true_and, powPrim_spec]
      by_cases ha : (e : Int) < 18446744073709551616
      · have : ¬ 340282366920938463463374607431768211456 ≤ e := by omega
        simp only [ha, if_true, this, if_false]
      · simp only [ha, if_false]
        by_cases hb : e < 340282366920938463463374607431768211456
        · have : ¬ 340282366920938463463374607431768211456 ≤ e := by omega
          simp only [hb, if_true, this, if_false]
        · have : 340282366920938463463374607431768211456 ≤ e := by omega
          simp only [hb, if_false, this, if_true]

theorem powsign_toInt (s : Sign) (e : Nat) : (powsign s e).toInt = s.toInt ^ e := by
  unfold powsign
  by_cases he : e = 0
  · subst he; simp [Sign.toInt]
  · simp only [he, if_false]
    cases s
    · by_cases ho : e % 2 = 1
      · simp only [ho, or_true, if_true, Sign.toInt]
        rw [Odd.neg_one_pow (Nat.odd_iff.2 ho)]
      · have hev : e % 2 = 0 := by omega
        simp only [ho, ne_eq, not_true_eq_false, or_self, if_false, Sign.neg, Sign.toInt]
        rw [Even.neg_one_pow (Nat.even_iff.2 hev)]
    · simp [Sign.toInt, he]
    · simp [Sign.toInt]

theorem iPow_spec (a : VInt) (e : Nat) : iPow a e = VInt.ofInt (a.val ^ e) := by
  unfold iPow
  rw [VInt.fromBiguint_toInt, powsign_toInt, powPrim_spec, VInt.val_eq_toInt, mul_pow]
  congr 1

theorem iPowBig_spec (a : VInt) (e : Nat) :
    iPowBig a e = if 2 ≤ a.mag ∧ 340282366920938463463374607431768211456 ≤ e then .error .capacity
                  else .ok (VInt.ofInt (a.val ^ e)) := by
  unfold iPowBig
  rw [uPowBig_spec]
  split
  · rfl
  · show Except.ok (VInt.fromBiguint _ _) = _
    rw [VInt.fromBiguint_toInt, powsign_toInt, VInt.val_eq_toInt, mul_pow]
    congr 2

/-! ## Sum / Product -/

theorem foldl_add (xs : List Nat) (acc : Nat) : xs.foldl (fun a x => a + x) acc = acc + xs.sum := by
  induction xs generalizing acc with
  | nil => simp
  | cons x xs ih => simp only [List.foldl_cons, List.sum_cons, ih]; omega

theorem foldl_mul (xs : List Nat) (acc : Nat) : xs.foldl (fun a x => a * x) acc = acc * xs.prod := by
  induction xs generalizing acc with
  | nil => simp
  | cons x xs ih => simp only [List.foldl_cons, List.prod_cons, ih]; ring

theorem uSum_spec (xs : List Nat) : uSum xs = xs.sum := by
  unfold uSum; rw [foldl_add]; simp

theorem uProduct_spec (xs : List Nat) : uProduct xs = xs.prod := by
  unfold uProduct; rw [foldl_mul]; simp

theorem sign_mul_toInt (s t : Sign) : (s.mul t).toInt = s.toInt * t.toInt := by
  cases s <;> cases t <;> simp [Sign.mul, Sign.toInt]

theorem vint_mul_spec (a b : VInt) : VInt.mul a b = VInt.ofInt (a.val * b.val) := by
  unfold VInt.mul
  rw [VInt.fromBiguint_toInt, sign_mul_toInt, VInt.val_eq_toInt, VInt.val_eq_toInt]
  congr 1; push_cast; ring

theorem iSum_spec (xs : List VInt) : iSum xs = VInt.ofInt (xs.map VInt.val).sum := by
  unfold iSum
  have : ∀ (acc : VInt) (i : Int), acc = VInt.ofInt i →
      xs.foldl VInt.add acc = VInt.ofInt (i + (xs.map VInt.val).sum) := by
    induction xs with
    | nil => intro acc i h; simp [h]
    | cons x xs ih =>
      intro acc i h
      simp only [List.foldl_cons, List.map_cons, List.sum_cons]
      rw [ih (VInt.add acc x) (i + x.val) (by unfold VInt.add; rw [h, VInt.ofInt_val])]
      congr 1; ring
  rw [this VInt.zero 0 VInt.zero_eq]; simp

theorem iProduct_spec (xs : List VInt) : iProduct xs = VInt.ofInt (xs.map VInt.val).prod := by
  unfold iProduct
  have : ∀ (acc : VInt) (i : Int), acc = VInt.ofInt i →
      xs.foldl VInt.mul acc = VInt.ofInt (i * (xs.map VInt.val).prod) := by
    induction xs with
    | nil => intro acc i h; simp [h]
    | cons x xs ih =>
      intro acc i h
      simp only [List.foldl_cons, List.map_cons, List.prod_cons]
      rw [ih (VInt.mul acc x) (i * x.val) (by rw [vint_mul_spec, h, VInt.ofInt_val])]
      congr 1; ring
  rw [this ⟨.plus, 1⟩ 1 (by decide)]; simp

/-! ## the driver's oracle helpers -/

/-- the shift oracle of the driver (which avoids materialising `2^k` for huge `k`) is floor division -/
theorem shrOracle_spec (x : Int) (k : Nat) : NB.Drv.C10.shrOracle x k = x / 2 ^ k := by
  unfold NB.Drv.C10.shrOracle
  by_cases hk : k > Nat.log2 x.natAbs
  · simp only [hk, if_true]
    have hlt : x.natAbs < 2 ^ k :=
      calc x.natAbs < 2 ^ (Nat.log2 x.natAbs + 1) := Nat.lt_log2_self
        _ ≤ 2 ^ k := Nat.pow_le_pow_right (by decide) hk
    have hlt' : (x.natAbs : Int) < 2 ^ k := by exact_mod_cast hlt
    by_cases hx : x < 0
    · simp only [hx, if_true]
      have key := (Int.ediv_emod_unique (a := x) (b := (2 : Int) ^ k) (r := x + 2 ^ k) (q := -1)
        (by positivity)).2 ⟨by ring, by omega, by omega⟩
      exact key.1.symm
    · simp only [hx, if_false]
      exact (Int.ediv_eq_zero_of_lt (by omega) (by omega)).symm
  · simp only [hk, if_false]

/-! ## digit-level ± leaves compute the value-level leaves -/

theorem val_replicate_zero (k : Nat) : val (List.replicate k 0) = 0 := by
  induction k with
  | zero => rfl
  | succ k ih => simp [List.replicate_succ, val, ih]

theorem digitsOk_replicate_zero (k : Nat) : DigitsOk (List.replicate k 0) := by
  intro d hd
  have := List.eq_of_mem_replicate hd
  subst this; exact B_pos

theorem val_padTo (n : Nat) (a : List Nat) : val (padToN n a) = val a := by
  unfold padToN; rw [val_append, val_replicate_zero]; simp

theorem digitsOk_padTo (n : Nat) {a : List Nat} (h : DigitsOk a) : DigitsOk (padToN n a) :=
  h.append (digitsOk_replicate_zero _)

theorem length_padTo (n : Nat) (a : List Nat) : (padToN n a).length = max n a.length := by
  unfold padToN; simp; omega

theorem padTo_of_le (n : Nat) (a : List Nat) (h : n ≤ a.length) : padToN n a = a := by
  unfold padToN; simp [Nat.sub_eq_zero_of_le h]

/-- `__add2` into a buffer that is long enough, then `push(carry)`: canonical exact sum -/
theorem add_finish (P : Params) (a' b : List Nat) (hl : b.length ≤ a'.length) (ha' : DigitsOk a')
    (hb : DigitsOk b) (hge : a' ≠ [] → B ^ (a'.length - 1) ≤ val a' + val b) :
    (if (add2c P a' b).2 ≠ 0 then (add2c P a' b).1 ++ [(add2c P a' b).2] else (add2c P a' b).1)
      = ofNat (val a' + val b) := by
  obtain ⟨l1, l2, l3, l4⟩ := add2c_spec P a' b hl ha' hb
  generalize add2c P a' b = r at *
  have key : val (if r.2 ≠ 0 then r.1 ++ [r.2] else r.1) = val a' + val b ∧
      Canon (if r.2 ≠ 0 then r.1 ++ [r.2] else r.1) := by
    by_cases hc : r.2 = 0
    · simp only [hc, ne_eq, not_true_eq_false, if_false]
      rw [hc] at l1
      refine ⟨by omega, canon_of_val_ge l3 ?_⟩
      intro hne
      rw [l2]
      have : a' ≠ [] := by intro h; subst h; simp at l2; exact hne l2
      have := hge this
      omega
    · have hc1 : r.2 = 1 := by omega
      simp only [hc, ne_eq, not_false_eq_true, if_true]
      refine ⟨?_, canon_append_singleton l3 (by rw [hc1]; decide) hc⟩
      rw [val_append, l2]; simp only [val, Nat.mul_zero, Nat.add_zero]; omega
  rw [canon_eq_ofNat key.2, key.1]

theorem dAddAssign1_spec (P : Params) (a : List Nat) (s : Nat) (ha : Canon a) (hs : s < B) :
    dAddAssign1 P a s = ofNat (val a + s) := by
  unfold dAddAssign1
  by_cases h0 : s = 0
  · subst h0; simp only [ne_eq, not_true_eq_false, if_false, Nat.add_zero]
    exact canon_eq_ofNat ha
  · simp only [h0, ne_eq, not_false_eq_true, if_true]
    have hvs : val [s] = s := by simp [val]
    have hds : DigitsOk [s] := DigitsOk.cons hs DigitsOk.nil
    by_cases hnil : a = []
    · subst hnil
      simp only [if_true]
      have := add_finish P [0] [s] (by simp) (DigitsOk.cons B_pos DigitsOk.nil) hds
        (by intro _; simp [val]; omega)
      rw [hvs] at this
      simpa [val] using this
    · simp only [hnil, if_false]
      have hlen : 1 ≤ a.length := by
        cases a with
        | nil => exact absurd rfl hnil
        | cons _ _ => simp
      have := add_finish P a [s] (by simpa using hlen) ha.1 hds
        (by intro hne; have := canon_val_ge ha hne; omega)
      rw [hvs] at this
      exact this

/-- `AddAssign<u32|u64|u128>` on digits: canonical digits of `a + s`, i.e. of the value-level leaf
    (`uAddAssign_spec`) -/
theorem dAddAssign_spec (t : STy) (P : Params) (a : List Nat) (s : Nat) (ha : Canon a)
    (hs : s < (if t = .u128 then B * B else B)) :
    dAddAssign t P a s = ofNat (uAddAssign t (val a) s) := by
  rw [uAddAssign_spec]
  have hsplit : s % B + B * (s / B) = s := Nat.mod_add_div s B
  unfold dAddAssign
  cases t <;> simp only [reduceCtorEq, if_false, if_true] at hs <;>
    try (exact dAddAssign1_spec P a s ha hs)
  -- u128
  by_cases hhi : s / B = 0
  · simp only [hhi, if_true]
    have : s % B = s := by rw [hhi] at hsplit; omega
    rw [dAddAssign1_spec P a _ ha (Nat.mod_lt _ B_pos), this]
  · simp only [hhi, if_false]
    have hhiB : s / B < B := Nat.div_lt_of_lt_mul hs
    have hdb : DigitsOk [s % B, s / B] :=
      DigitsOk.cons (Nat.mod_lt _ B_pos) (DigitsOk.cons hhiB DigitsOk.nil)
    have hvb : val [s % B, s / B] = s := by simp only [val, Nat.mul_zero, Nat.add_zero]; exact hsplit
    have hsB : B ≤ s := by
      have : 1 ≤ s / B := Nat.pos_of_ne_zero hhi
      calc B = B * 1 := (Nat.mul_one B).symm
        _ ≤ B * (s / B) := Nat.mul_le_mul_left _ this
        _ ≤ s := Nat.mul_div_le s B
    have := add_finish P (padToN 2 a) [s % B, s / B] (by rw [length_padTo]; exact Nat.le_max_left 2 _)
      (digitsOk_padTo 2 ha.1) hdb
      (by
        intro _
        rw [val_padTo, hvb, length_padTo]
        by_cases h2 : a.length ≤ 2
        · have : max 2 a.length = 2 := by omega
          rw [this]; simp; omega
        · have hne : a ≠ [] := by intro e; subst e; simp at h2
          have := canon_val_ge ha hne
          have e : max 2 a.length = a.length := by omega
          rw [e]; omega)
    rw [val_padTo, hvb] at this
    exact this

theorem map_ofNat_ite (c : Prop) [Decidable c] (e : Panic) (x : Nat) :
    (if c then Except.error e else Except.ok x).map ofNat = if c then .error e else .ok (ofNat x) := by
  split <;> rfl

theorem sub_finish (P : Params) (a b : List Nat) (ha : DigitsOk a) (hb : DigitsOk b) :
    (sub2 P a b).map normalize = if val a < val b then .error .underflow else .ok (ofNat (val a - val b)) := by
  obtain ⟨h1, h2⟩ := sub2_spec P a b ha hb
  by_cases hlt : val a < val b
  · simp only [hlt, if_true, h1 hlt]; rfl
  · simp only [hlt, if_false]
    obtain ⟨r, hr, hv, _, hok⟩ := h2 (by omega)
    rw [hr]
    show Except.ok (normalize r) = _
    rw [canon_eq_ofNat (normalize_canon hok), normalize_val, hv]

theorem subrev_finish (a b : List Nat) (hl : a.length ≤ b.length) (ha : DigitsOk a) (hb : DigitsOk b) :
    (sub2rev a b).map normalize = if val a < val b then .error .underflow else .ok (ofNat (val a - val b)) := by
  obtain ⟨h1, h2⟩ := sub2rev_spec a b hl ha hb
  by_cases hlt : val a < val b
  · simp only [hlt, if_true, h1 hlt]; rfl
  · simp only [hlt, if_false]
    obtain ⟨r, hr, hv, hok⟩ := h2 (by omega)
    rw [hr]
    show Except.ok (normalize r) = _
    rw [canon_eq_ofNat (normalize_canon hok), normalize_val, hv]

/-- `SubAssign<u32|u64|u128>` on digits = the value-level leaf on `val a` -/
theorem dSubAssign_spec (t : STy) (P : Params) (a : List Nat) (s : Nat) (ha : Canon a)
    (hs : s < (if t = .u128 then B * B else B)) :
    dSubAssign t P a s = (uSubAssign t (val a) s).map ofNat := by
  rw [uSubAssign_spec]
  have hsplit : s % B + B * (s / B) = s := Nat.mod_add_div s B
  have fin : ∀ (b : List Nat), DigitsOk b → val b = s →
      (sub2 P a b).map normalize = (if val a < s then Except.error Panic.underflow else .ok (val a - s)).map ofNat := by
    intro b hb hv
    rw [sub_finish P a b ha.1 hb, hv, map_ofNat_ite]
  unfold dSubAssign
  cases t <;> simp only [reduceCtorEq, if_false, if_true] at hs <;>
    try (exact fin [s] (DigitsOk.cons hs DigitsOk.nil) (by simp [val]))
  exact fin [s % B, s / B]
    (DigitsOk.cons (Nat.mod_lt _ B_pos) (DigitsOk.cons (Nat.div_lt_of_lt_mul hs) DigitsOk.nil))
    (by simp only [val, Nat.mul_zero, Nat.add_zero]; exact hsplit)

/-- `Sub<BigUint> for u32|u64|u128` on digits = the value-level leaf on `val a` -/
theorem dSubRev_spec (t : STy) (s : Nat) (a : List Nat) (ha : Canon a)
    (hs : s < (if t = .u128 then B * B else B)) :
    dSubRev t s a = (uSubRev t s (val a)).map ofNat := by
  rw [uSubRev_spec]
  have hsplit : s % B + B * (s / B) = s := Nat.mod_add_div s B
  unfold dSubRev
  cases t <;> simp only [reduceCtorEq, if_false, if_true] at hs
  case u128 =>
    have hdb : DigitsOk [s % B, s / B] :=
      DigitsOk.cons (Nat.mod_lt _ B_pos) (DigitsOk.cons (Nat.div_lt_of_lt_mul hs) DigitsOk.nil)
    have hvb : val [s % B, s / B] = s := by simp only [val, Nat.mul_zero, Nat.add_zero]; exact hsplit
    rw [subrev_finish _ _ (by rw [length_padTo]; exact Nat.le_max_left 2 _) hdb (digitsOk_padTo 2 ha.1), val_padTo, hvb,
      map_ofNat_ite]
  all_goals
    have hds : DigitsOk [s] := DigitsOk.cons hs DigitsOk.nil
    have hvs : val [s] = s := by simp [val]
    by_cases hnil : a = []
    · subst hnil
      simp only [if_true, val]
      have : ¬ s < 0 := by omega
      simp only [this, if_false, Nat.sub_zero]
      show Except.ok (normalize [s]) = Except.ok (ofNat s)
      rw [canon_eq_ofNat (normalize_canon hds), normalize_val, hvs]
    · simp only [hnil, if_false]
      have hlen : 1 ≤ a.length := by
        cases a with
        | nil => exact absurd rfl hnil
        | cons _ _ => simp
      rw [subrev_finish [s] a (by simpa using hlen) hds ha.1, hvs, map_ofNat_ite]

/-! ## non-vacuity -/

/-- non-vacuity of `iShr_spec` (its hypotheses hold for a concrete negative odd value): -5 >> 1 = -3 -/
example : iShr ⟨.minus, 5⟩ 1 = .ok (VInt.ofInt (-3)) := by
  rw [iShr_spec _ _ (by decide)
    (by intro K hK
        calc 5 < 2 ^ 3 := by decide
          _ ≤ 2 ^ K := Nat.pow_le_pow_right (by decide) (by omega))]
  decide
example : dAddAssign .u128 NB.Gen.P [18446744073709551615] 340282366920938463463374607431768211455
    = [18446744073709551614, 0, 1] := by decide
example : dSubRev .u64 5 [] = .ok [5] := by decide

end NB
