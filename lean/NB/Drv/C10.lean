/-
  driver handlers for stream C10 (operator form matrix).

  Request: `form <id> <lhs> <rhs>` (or `form <id> <item>*` for Sum/Product), the id layout is the one
  documented in harness/src/c10.rs:
      id = K*1_000_000 + OP*10_000 + SHAPE*1_000 + STY*10 + VAR
  Model column: EVERY form is computed by the DIGIT-level model of NB.Model.ScalarD on the limbs as received
  (no size cap): the scalar forms of `+ - * / %` (big ∘ s, s ∘ big, big ∘= s, `scalar %= BigUint`) by
  `NB.SD.uScalarForm`, `NB.SD.iScalarForm`, `NB.SD.dRemAssignScalar` (promotion cast, then the leaf impl on digit
  vectors); the shift forms by `NB.SD.uShiftForm` / `NB.SD.iShiftForm` (C07's `biguintShl/biguintShr`,
  `BigInt.shl/shlAssign/shr/shrAssign`: negative-amount panic, capacity overflow, `shr_round_down`); the Pow forms by
  `NB.PowD.powPrim/powBig/bigintPow/bigintPowBig` with the operand form (val/ref × val/ref) of the id; the big ∘ big
  forms and `checked_*` by `NB.SD.uBinForm/iBinForm/uCheckedForm/iCheckedForm` (C01 add/sub, C02 mul, C03 div/rem,
  C07 and/or/xor); Sum / Product by the folds `NB.SD.uIterForm/iIterForm`.  NB.Props.C10D proves each of them equal
  to the value-level form (`uShl`, `iShr`, `powPrim`, `uPowBig`, `uBin`, `iBin`, … of NB.Model.Scalar and of this
  file, which stay as the intermediate layer) mapped through `ofNat` / `ofV`, panics included.
  Oracle column: the mathematical result on `Int`
  (`+ - *`, `Int.tdiv/tmod`, two's-complement bit operations through a window of residues,
  shifts as `* 2^k` and floor division) or the documented panic class.
-/
import NB.Wire
import NB.Model.Scalar
import NB.Model.ScalarD
import NB.Model.PowD
import NB.Model.AsmParams
namespace NB.Drv.C10
open NB NB.Wire

structure Form where
  k : Nat
  op : Nat
  shape : Nat
  sty : Nat
  var : Nat

def decode (id : Nat) : Form :=
  ⟨id / 1000000, id / 10000 % 100, id / 1000 % 10, id / 10 % 100, id % 10⟩

def styOfNum : Nat → Option STy
  | 1 => some .u8 | 2 => some .u16 | 3 => some .u32 | 4 => some .u64 | 5 => some .u128 | 6 => some .usize
  | 7 => some .i8 | 8 => some .i16 | 9 => some .i32 | 10 => some .i64 | 11 => some .i128 | 12 => some .isize
  | _ => none

def styOfName (s : String) : Option STy :=
  if s == "u8" then some .u8 else if s == "u16" then some .u16 else if s == "u32" then some .u32
  else if s == "u64" then some .u64 else if s == "u128" then some .u128 else if s == "usize" then some .usize
  else if s == "i8" then some .i8 else if s == "i16" then some .i16 else if s == "i32" then some .i32
  else if s == "i64" then some .i64 else if s == "i128" then some .i128 else if s == "isize" then some .isize
  else none

inductive Arg where
  | u (n : Nat) (limbs : List Nat)
  | i (x : VInt) (b : BigInt)
  | s (t : STy) (v : Int)

def parseScalar (s : String) : Option Arg :=
  match s.splitOn ":" with
  | [t, v] => do
    let ty ← styOfName t
    let x ← parseInt v
    if ty.InRange x then pure (.s ty x) else none
  | _ => none

def parseArg (f : Form) (idx : Nat) (s : String) : Option Arg :=
  if s.contains ':' then parseScalar s
  else if f.k = 1 ∨ (f.op = 11 ∧ f.sty = 13 ∧ idx = 1) then (parseLimbs s).map (fun l => .u (val l) l)
  else (parseBigInt s).map (fun b => .i ⟨b.sign, val b.mag⟩ b)

def parseArgs (f : Form) : Nat → List String → Option (List Arg)
  | _, [] => some []
  | n, t :: ts => do
    let a ← parseArg f n t
    let r ← parseArgs f (n + 1) ts
    pure (a :: r)

/-! ### results -/

inductive Res where
  | u (n : Nat)
  | ul (l : List Nat)
  | i (x : VInt)
  | il (b : BigInt)
  | ou (o : Option Nat)
  | oi (o : Option VInt)
  | oul (o : Option (List Nat))
  | oil (o : Option BigInt)

def showVInt (v : VInt) : String := showSign v.sign ++ showLimbs (ofNat v.mag)

def Res.show : Res → String
  | .u n => "ok " ++ showLimbs (ofNat n)
  | .ul l => "ok " ++ showLimbs l
  | .i x => "ok " ++ showVInt x
  | .il b => "ok " ++ showSign b.sign ++ showLimbs b.mag
  | .ou o => showOpt (fun n => showLimbs (ofNat n)) o
  | .oi o => showOpt showVInt o
  | .oul o => showOpt showLimbs o
  | .oil o => showOpt (fun b => showSign b.sign ++ showLimbs b.mag) o

def showOut (r : Except Panic Res) : String :=
  match r with
  | .ok v => v.show
  | .error p => "panic " ++ p.toString

/-! ### canonical VALUE-level big∘big operations: the intermediate layer of the refinement
    (`NB.SD.uBinForm` / `NB.SD.iBinForm` are proved equal to them in NB.Props.C10D; the model column below
    no longer calls them) -/

def aopOf : Nat → Option AOp
  | 1 => some .add | 2 => some .sub | 3 => some .mul | 4 => some .div | 5 => some .rem
  | _ => none

def uBin (op : Nat) (a b : Nat) : Except Panic Nat :=
  match op with
  | 1 => .ok (a + b)
  | 2 => if a < b then .error .underflow else .ok (a - b)
  | 3 => .ok (a * b)
  | 4 => if b = 0 then .error .divzero else .ok (a / b)
  | 5 => if b = 0 then .error .divzero else .ok (a % b)
  | 6 => .ok (a &&& b)
  | 7 => .ok (a ||| b)
  | 8 => .ok (a ^^^ b)
  | _ => .error (.internal "op")

/-- `-(n+1)` as a VInt, i.e. bitwise NOT of the natural number `n` -/
def notNat (n : Nat) : VInt := ⟨.minus, n + 1⟩

/-- two's-complement AND / OR / XOR by sign cases (magnitudes of negatives enter as `m - 1`) -/
def iBit (op : Nat) (a b : VInt) : VInt :=
  let neg (x : VInt) : Bool := x.sign == .minus
  match op, neg a, neg b with
  | 6, false, false => VInt.fromNat (a.mag &&& b.mag)
  | 6, false, true => VInt.fromNat (a.mag - (a.mag &&& (b.mag - 1)))
  | 6, true, false => VInt.fromNat (b.mag - (b.mag &&& (a.mag - 1)))
  | 6, true, true => notNat ((a.mag - 1) ||| (b.mag - 1))
  | 7, false, false => VInt.fromNat (a.mag ||| b.mag)
  | 7, false, true => notNat ((b.mag - 1) - ((b.mag - 1) &&& a.mag))
  | 7, true, false => notNat ((a.mag - 1) - ((a.mag - 1) &&& b.mag))
  | 7, true, true => notNat ((a.mag - 1) &&& (b.mag - 1))
  | _, false, false => VInt.fromNat (a.mag ^^^ b.mag)
  | _, false, true => notNat (a.mag ^^^ (b.mag - 1))
  | _, true, false => notNat ((a.mag - 1) ^^^ b.mag)
  | _, true, true => VInt.fromNat ((a.mag - 1) ^^^ (b.mag - 1))

def iBin (op : Nat) (a b : VInt) : Except Panic VInt :=
  match op with
  | 1 => .ok (VInt.add a b)
  | 2 => .ok (VInt.ofInt (a.val - b.val))
  | 3 => .ok (VInt.mul a b)
  | 4 => if b.mag = 0 then .error .divzero else .ok (VInt.fromBiguint (a.sign.mul b.sign) (a.mag / b.mag))
  | 5 => if b.mag = 0 then .error .divzero else .ok (VInt.fromBiguint a.sign (a.mag % b.mag))
  | 6 | 7 | 8 => .ok (iBit op a b)
  | _ => .error (.internal "op")

/-! ### oracle: plain integer mathematics -/

def argInt : Arg → Int
  | .u n _ => n
  | .i x _ => x.val
  | .s _ v => v

/-- two's-complement window wide enough for both operands -/
def bitOracle (op : Nat) (x y : Int) : Int :=
  let w : Nat := 2 ^ (Nat.log2 (x.natAbs + y.natAbs + 1) + 3)
  let rx := (x % (w : Int)).toNat
  let ry := (y % (w : Int)).toNat
  let r := match op with
    | 6 => rx &&& ry
    | 7 => rx ||| ry
    | _ => rx ^^^ ry
  if r ≥ w / 2 then (r : Int) - w else r

/-- floor (x / 2^k) without materialising `2^k` when it exceeds `|x|` -/
def shrOracle (x : Int) (k : Nat) : Int :=
  if k > Nat.log2 x.natAbs then (if x < 0 then -1 else 0) else x / (2 ^ k : Int)

def powOracle (x : Int) (e : Nat) : Except Panic Int :=
  if x = 0 then .ok (if e = 0 then 1 else 0)
  else if x = 1 then .ok 1
  else if x = -1 then .ok (if e % 2 = 0 then 1 else -1)
  else if e ≥ 340282366920938463463374607431768211456 then .error .capacity
  else .ok (x ^ e)

def wrap (k : Nat) (v : Int) : Res := if k = 1 then .u v.toNat else .i (VInt.ofInt v)
def wrapOpt (k : Nat) (v : Option Int) : Res :=
  if k = 1 then .ou (v.map Int.toNat) else .oi (v.map VInt.ofInt)

def oracleBin (k op : Nat) (x y : Int) : Except Panic Int :=
  match op with
  | 1 => .ok (x + y)
  | 2 => if k = 1 ∧ x < y then .error .underflow else .ok (x - y)
  | 3 => .ok (x * y)
  | 4 => if y = 0 then .error .divzero else .ok (Int.tdiv x y)
  | 5 => if y = 0 then .error .divzero else .ok (Int.tmod x y)
  | 6 | 7 | 8 => .ok (bitOracle op x y)
  | _ => .error (.internal "op")

def oracle (f : Form) (args : List Arg) : Option (Except Panic Res) :=
  match f.shape, args with
  | 6, items =>
    let vs := items.map argInt
    some (.ok (wrap f.k (if f.op = 16 then vs.foldl (· + ·) 0 else vs.foldl (· * ·) 1)))
  | 5, [.s t s, .u a _] =>
    some (if a = 0 then .error .divzero
          else .ok (if t.signed then .i (VInt.ofInt (Int.tmod s a)) else .u (Int.tmod s a).toNat))
  | _, [l, r] =>
    let x := argInt l; let y := argInt r
    if f.op = 9 then
      some (if y < 0 then .error .negshift
            else if x = 0 then .ok (wrap f.k 0)
            else if y / 64 ≥ usizeLim then .error .capacity
            else .ok (wrap f.k (x * 2 ^ y.toNat)))
    else if f.op = 10 then
      some (if y < 0 then .error .negshift else .ok (wrap f.k (shrOracle x y.toNat)))
    else if f.op = 11 then
      some ((powOracle x y.toNat).map (wrap f.k))
    else if 12 ≤ f.op ∧ f.op ≤ 15 then
      some (match oracleBin f.k (f.op - 11) x y with
        | .ok v => .ok (wrapOpt f.k (some v))
        | .error .divzero => .ok (wrapOpt f.k none)
        | .error .underflow => .ok (wrapOpt f.k none)
        | .error p => .error p)
    else some ((oracleBin f.k f.op x y).map (wrap f.k))
  | _, _ => none

/-! ### model: promotion + leaf routing -/

def posOf (shape : Nat) : SPos :=
  if shape = 2 then .scalarBig else if shape = 3 then .assign else .bigScalar

def liftU (r : Except Panic Nat) : Except Panic Res := r.map Res.u
def liftI (r : Except Panic VInt) : Except Panic Res := r.map Res.i

/-- BigUint ∘ scalar on the digit level (promotion cast, then the digit-level leaf) -/
def uFormDigits (op : AOp) (pos : SPos) (t : STy) (la : List Nat) (s : Int) : Except Panic Res :=
  (SD.uScalarForm NB.Gen.P op pos t la s).map Res.ul

/-- BigInt ∘ scalar on the digit level -/
def iFormDigits (op : AOp) (pos : SPos) (t : STy) (a : BigInt) (s : Int) : Except Panic Res :=
  (SD.iScalarForm NB.Gen.P op pos t a s).map Res.il

/-- the operand form of a Pow id: VAR 0 val∘val, 1 val∘ref, 2 ref∘val, 3 ref∘ref -/
def powFormOf (var : Nat) : Pow.Form :=
  match var with
  | 0 => .vv | 1 => .vr | 2 => .rv | _ => .rr

def liftUL (r : Except Panic (List Nat)) : Except Panic Res := r.map Res.ul
def liftIL (r : Except Panic BigInt) : Except Panic Res := r.map Res.il

def uItems : List Arg → Option (List (SD.Item (List Nat)))
  | [] => some []
  | .u _ l :: r => (uItems r).map (fun t => .big l :: t)
  | .s t s :: r => (uItems r).map (fun tl => .sc t s :: tl)
  | .i _ _ :: _ => none

def iItems : List Arg → Option (List (SD.Item BigInt))
  | [] => some []
  | .i _ b :: r => (iItems r).map (fun t => .big b :: t)
  | .s t s :: r => (iItems r).map (fun tl => .sc t s :: tl)
  | .u _ _ :: _ => none

def model (f : Form) (args : List Arg) : Option (Except Panic Res) :=
  match f.k, f.shape, args with
  -- Sum / Product: digit-level folds of the `Add` / `Mul` forms
  | 1, 6, items => (uItems items).map (fun its => liftUL (SD.uIterForm NB.Gen.P (f.op = 16) its))
  | 2, 6, items => (iItems items).map (fun its => liftIL (SD.iIterForm NB.Gen.P (f.op = 16) its))
  -- scalar %= BigUint
  | 1, 5, [.s t s, .u _ la] =>
    some ((SD.dRemAssignScalar t s la).map (fun r => if t.signed then Res.i (VInt.ofInt r) else Res.u r.toNat))
  -- BigUint
  | 1, _, [.u _ la, .u _ lb] =>
    if f.op = 11 then some (liftUL (PowD.powBig NB.Gen.P (powFormOf f.var) la lb))
    else if 12 ≤ f.op ∧ f.op ≤ 15 then some ((SD.uCheckedForm NB.Gen.P (f.op - 11) la lb).map Res.oul)
    else some (liftUL (SD.uBinForm NB.Gen.P f.op la lb))
  | 1, _, [.u _ la, .s t s] =>
    if f.op = 9 then some (liftUL (SD.uShiftForm true la s))
    else if f.op = 10 then some (liftUL (SD.uShiftForm false la s))
    else if f.op = 11 then some (liftUL (PowD.powPrim NB.Gen.P (powFormOf f.var) la s.toNat))
    else (aopOf f.op).map (fun op => uFormDigits op (posOf f.shape) t la s)
  | 1, 2, [.s t s, .u _ la] =>
    (aopOf f.op).map (fun op => uFormDigits op .scalarBig t la s)
  -- BigInt
  | 2, _, [.i _ ab, .i _ bb] =>
    if 12 ≤ f.op ∧ f.op ≤ 15 then some ((SD.iCheckedForm NB.Gen.P (f.op - 11) ab bb).map Res.oil)
    else some (liftIL (SD.iBinForm NB.Gen.P f.op ab bb))
  | 2, _, [.i _ ab, .u _ le] =>
    if f.op = 11 then some (liftIL (PowD.bigintPowBig NB.Gen.P (powFormOf f.var) ab le)) else none
  | 2, _, [.i _ ab, .s t s] =>
    if f.op = 9 then some (liftIL (SD.iShiftForm NB.Gen.P true (f.shape = 3) ab s))
    else if f.op = 10 then some (liftIL (SD.iShiftForm NB.Gen.P false (f.shape = 3) ab s))
    else if f.op = 11 then some (liftIL (PowD.bigintPow NB.Gen.P (powFormOf f.var) ab s.toNat))
    else (aopOf f.op).map (fun op => iFormDigits op (posOf f.shape) t ab s)
  | 2, 2, [.s t s, .i _ ab] =>
    (aopOf f.op).map (fun op => iFormDigits op .scalarBig t ab s)
  | _, _, _ => none

/-- a left shift of a non-zero operand by 2^38 … 2^70 bits: the digit count fits `usize`, so the real code tries to
    allocate it (and aborts) and the model would build the zero digits — not a documented panic, never generated;
    answered `unsupported` so that the shrinker of tools/check.py cannot wander into it -/
def unrunnable (f : Form) (args : List Arg) : Bool :=
  match args with
  | [l, .s _ s] => f.op = 9 && argInt l != 0 && decide (4294967296 ≤ s / 64) && decide (s / 64 < usizeLim)
  | _ => false

def handle (op : String) (args : List String) : Option (String × String) :=
  match op, args with
  | "form", id :: rest => do
    let n ← parseNat id
    let f := decode n
    let as ← parseArgs f 0 rest
    if unrunnable f as then none
    let m ← model f as
    let o ← oracle f as
    pure (showOut m, showOut o)
  -- api-coverage: `tform <id> <lhs> <rhs>` = the checked_* forms (OP 12..15) through the TRAIT impls
  -- (`CheckedAdd::checked_add(x, y)` …); the trait bodies are `Some(self.add(v))` / the zero test, the same
  -- canonical operations as the inherent methods, so model and oracle are those of `form`
  | "tform", id :: rest => do
    let n ← parseNat id
    let f := decode n
    if ¬ (12 ≤ f.op ∧ f.op ≤ 15 ∧ f.shape = 0 ∧ f.sty = 0 ∧ f.var = 3) then none else
    let as ← parseArgs f 0 rest
    let m ← model f as
    let o ← oracle f as
    pure (showOut m, showOut o)
  | _, _ => none

end NB.Drv.C10
