"""C04 — equal integers are indistinguishable: comparison / hash / constructor / history requests.

Streams
  cmp      u.cmp u.eq u.hash_eq i.cmp i.eq i.hash_eq u/i.max u/i.min u/i.sort on structured pairs:
           equal values, top-digit / low-digit differences, length differences with adversarial
           digits (short & large digits vs long & small digits), neighbours a±1 across digit
           boundaries, all sign combinations (reversed order for negatives), zero against ±x.
  ctor     u.new u.from_slice u.assign_from_slice i.new i.from_slice i.assign_from_slice i.from_biguint
           with 0..5 trailing zero words, odd / even word counts, all-zero input, every Sign request
           (also the inconsistent ones: NoSign with non-zero magnitude, Plus/Minus with zero).
  hist     (ops: += -= *= (register and u32/u64/u128/i128 scalar forms) /= %= <<= >>= &= |= ^= set_bit
           set_zero set_one clone_from assign_from_slice, negation; shift amounts and bit indices stay
           small so that values stay small)
           histories of in-place operations on 8 registers (4 BigUint + 4 BigInt) with themes that
           make buffers grow and shrink and make several registers reach the same integer along
           different routes; `!` checkpoints dump the whole state in the middle of a history.
"""
from genlib import *

SIGNS = ["+", "-", "0"]
W32 = (1 << 32) - 1


def words_of(n):
    out = []
    while n:
        out.append(n & W32)
        n >>= 32
    return out


def ww(ws):
    return "w" + ",".join("%x" % w for w in ws)


def imm(ws):
    return ",".join("%x" % w for w in ws)


def val32(ws):
    v = 0
    for w in reversed(ws):
        v = (v << 32) | w
    return v


# ---------------------------------------------------------------------------------------------
# comparison pairs

def neighbours(rng, n):
    """values around digit-length boundaries and with adversarial digits, n = digit count"""
    out = [0, 1]
    if n == 0:
        return out
    top = B ** (n - 1)
    out += [top, top - 1 if n > 1 else 1, top + 1, B ** n - 1, B ** n, B ** n + 1]
    out += [val([MAX] * (n - 1) + [1]), val([0] * (n - 1) + [MAX]), val([1] * n), val([MAX] * n)]
    a = big(rng, n)
    out += [a, a + 1, max(a - 1, 0), a ^ 1, a ^ (1 << (64 * (n - 1))), a ^ (1 << (64 * n - 1)) or 1]
    # same top digits, differ only in the lowest / a middle digit
    d = digits(rng, n, "rand")
    d = canon(d, rng)
    e = list(d); e[0] ^= 1
    out += [val(d), val(e)]
    if n > 2:
        e = list(d); k = rng.randrange(1, n - 1); e[k] = (e[k] + 1) % B
        out.append(val(e))
    # shorter but with large digits
    if n > 1:
        out.append(val([MAX] * (n - 1)))
    return out


def cmp_requests(rng, tier):
    reqs = []
    ns = [0, 1, 2, 3, 4, 5, 6, 7, 9, 16] + ([33, 64, 100] if tier == "thorough" else [12])
    rounds = 6 if tier == "thorough" else 2
    for _ in range(rounds):
        for n in ns:
            vs = neighbours(rng, n)
            vs = list(dict.fromkeys(vs))
            k = len(vs)
            picks = [(rng.randrange(k), rng.randrange(k)) for _ in range(14)] + [(i, i) for i in range(0, k, 3)] \
                + [(i, i + 1) for i in range(k - 1)]
            for (i, j) in picks:
                a, b = vs[i], vs[j]
                op = rng.choice(["u.cmp", "u.cmp", "u.eq", "u.hash_eq", "u.max", "u.min"])
                reqs.append("C04 %s %s %s" % (op, wu(a), wu(b)))
                for (sa, sb) in rng.sample([(1, 1), (1, -1), (-1, 1), (-1, -1)], 2):
                    op = rng.choice(["i.cmp", "i.cmp", "i.eq", "i.hash_eq", "i.max", "i.min"])
                    reqs.append("C04 %s %s %s" % (op, wi(sa * a), wi(sb * b)))
            # sorts of small mixed lists with duplicates
            for _ in range(3):
                l = [rng.choice(vs) for _ in range(rng.randrange(2, 9))]
                reqs.append("C04 u.sort " + " ".join(wu(x) for x in l))
                reqs.append("C04 i.sort " + " ".join(wi(signed(rng, x)) for x in l))
    return reqs


# ---------------------------------------------------------------------------------------------
# constructors

def word_patterns(rng, nwords):
    """u32 word lists of nwords significant words (before padding)"""
    out = []
    if nwords == 0:
        return [[]]
    out.append([rng.randrange(1 << 32) for _ in range(nwords - 1)] + [rng.randrange(1, 1 << 32)])
    out.append([W32] * nwords)
    out.append([0] * (nwords - 1) + [1])
    out.append([0] * (nwords - 1) + [1 << 31])
    out.append([rng.choice([0, 1, W32, 1 << 31]) for _ in range(nwords - 1)] + [rng.choice([1, W32])])
    return out


def ctor_requests(rng, tier):
    reqs = []
    sizes = list(range(0, 10)) + [15, 16, 17] + ([63, 64, 65, 130] if tier == "thorough" else [33])
    rounds = 4 if tier == "thorough" else 1
    for _ in range(rounds):
        for nw in sizes:
            for ws in word_patterns(rng, nw):
                for pad in (0, 1, 2, 3, rng.randrange(4, 9)):
                    w = ws + [0] * pad
                    op = rng.choice(["u.new", "u.from_slice"])
                    reqs.append("C04 %s %s" % (op, ww(w)))
                    old = big(rng, rng.choice([0, 1, 2, 9, 20]))
                    reqs.append("C04 u.assign_from_slice %s %s" % (wu(old), ww(w)))
                    s = rng.choice(SIGNS)
                    op = rng.choice(["i.new", "i.from_slice"])
                    reqs.append("C04 %s %s %s" % (op, s, ww(w)))
                    s = rng.choice(SIGNS)
                    reqs.append("C04 i.assign_from_slice %s %s %s" % (wi(signed(rng, old)), s, ww(w)))
                # all-zero input of the same length
                z = [0] * nw
                reqs.append("C04 u.new %s" % ww(z))
                reqs.append("C04 i.new %s %s" % (rng.choice(SIGNS), ww(z)))
                reqs.append("C04 i.assign_from_slice %s %s %s" % (wi(signed(rng, big(rng, 3))), rng.choice(["+", "-"]), ww(z)))
        # from_biguint: every sign request against zero / one-digit / multi-digit magnitudes
        for s in SIGNS:
            for m in [0, 1, MAX, B, big(rng, 2), big(rng, 5), big(rng, rng.randrange(1, 20))]:
                reqs.append("C04 i.from_biguint %s %s" % (s, wu(m)))
    return reqs


# ---------------------------------------------------------------------------------------------
# histories

class Hist:
    """builds one history request while tracking the denoted values (the spec machine)"""

    def __init__(self, rng, us, is_):
        self.rng = rng
        self.u0 = list(us); self.i0 = list(is_)
        self.u = list(us); self.i = list(is_)
        self.toks = []

    # --- BigUint ops
    def uadd(self, d, s): self.u[d] += self.u[s]; self.toks.append("u:add:%d:%d" % (d, s))

    def usub(self, d, s):
        if self.u[d] >= self.u[s]:
            self.u[d] -= self.u[s]
        self.toks.append("u:sub:%d:%d" % (d, s))   # underflow: documented failure, register unchanged

    def uzero(self, d): self.u[d] = 0; self.toks.append("u:zero:%d:%d" % (d, d))
    def uone(self, d): self.u[d] = 1; self.toks.append("u:one:%d:%d" % (d, d))
    def uclone(self, d, s): self.u[d] = self.u[s]; self.toks.append("u:clone:%d:%d" % (d, s))

    def uasg(self, d, v, pad=None):
        pad = self.rng.randrange(0, 4) if pad is None else pad
        ws = words_of(v) + [0] * pad
        self.u[d] = v
        self.toks.append("u:asg:%d:%d:%s" % (d, d, imm(ws)))

    # --- BigInt ops
    def iadd(self, d, s): self.i[d] += self.i[s]; self.toks.append("i:add:%d:%d" % (d, s))
    def isub(self, d, s): self.i[d] -= self.i[s]; self.toks.append("i:sub:%d:%d" % (d, s))
    def izero(self, d): self.i[d] = 0; self.toks.append("i:zero:%d:%d" % (d, d))
    def ione(self, d): self.i[d] = 1; self.toks.append("i:one:%d:%d" % (d, d))
    def iclone(self, d, s): self.i[d] = self.i[s]; self.toks.append("i:clone:%d:%d" % (d, s))
    def ineg(self, d): self.i[d] = -self.i[d]; self.toks.append("i:neg:%d:%d" % (d, d))

    def iasg(self, d, sign, mag, pad=None):
        """sign: 0 minus, 1 nosign, 2 plus (any combination with mag, also inconsistent)"""
        pad = self.rng.randrange(0, 4) if pad is None else pad
        ws = words_of(mag) + [0] * pad
        self.i[d] = 0 if sign == 1 else (mag if sign == 2 else -mag)
        self.toks.append("i:asg:%d:%d:%s" % (d, d, imm([sign] + ws)))

    def iset(self, d, v, pad=None):
        self.iasg(d, 1 if (v == 0 and self.rng.randrange(2)) else (2 if v >= 0 else 0), abs(v), pad)

    # --- further in-place BigUint ops
    def umul(self, d, s): self.u[d] *= self.u[s]; self.toks.append("u:mul:%d:%d" % (d, s))

    def umuls(self, d, v, width=None):
        """`*= v` through the narrowest (or the requested) scalar form"""
        w = width or (32 if v < (1 << 32) else 64 if v < B else 128)
        self.u[d] *= v
        if w == 128:
            self.toks.append("u:mul128:%d:%d:%x,%x" % (d, d, v % B, v // B))
        else:
            self.toks.append("u:mul%d:%d:%d:%x" % (w, d, d, v))

    def udiv(self, d, s):
        if self.u[s] != 0: self.u[d] //= self.u[s]
        self.toks.append("u:div:%d:%d" % (d, s))      # zero divisor: documented failure, register unchanged

    def urem(self, d, s):
        if self.u[s] != 0: self.u[d] %= self.u[s]
        self.toks.append("u:rem:%d:%d" % (d, s))

    def ushl(self, d, k): self.u[d] <<= k; self.toks.append("u:shl:%d:%d:%x" % (d, d, k))
    def ushr(self, d, k): self.u[d] >>= k; self.toks.append("u:shr:%d:%d:%x" % (d, d, k))
    def uand(self, d, s): self.u[d] &= self.u[s]; self.toks.append("u:and:%d:%d" % (d, s))
    def uor(self, d, s): self.u[d] |= self.u[s]; self.toks.append("u:or:%d:%d" % (d, s))
    def uxor(self, d, s): self.u[d] ^= self.u[s]; self.toks.append("u:xor:%d:%d" % (d, s))

    def usetbit(self, d, k, v):
        self.u[d] = (self.u[d] | (1 << k)) if v else (self.u[d] & ~(1 << k))
        self.toks.append("u:setbit:%d:%d:%x,%x" % (d, d, k, 1 if v else 0))

    # --- further in-place BigInt ops
    def imul(self, d, s): self.i[d] *= self.i[s]; self.toks.append("i:mul:%d:%d" % (d, s))

    def imulu(self, d, v):
        self.i[d] *= v; self.toks.append("i:mul128:%d:%d:%x,%x" % (d, d, v % B, v // B))

    def imuli(self, d, v):
        """`*= v as i128`, -2^127 <= v < 2^127"""
        self.i[d] *= v
        m = abs(v)
        self.toks.append("i:muli128:%d:%d:%x,%x,%x" % (d, d, 1 if v < 0 else 0, m % B, m // B))

    @staticmethod
    def tdiv(x, y):
        q = abs(x) // abs(y)
        return q if (x < 0) == (y < 0) else -q

    def idiv(self, d, s):
        if self.i[s] != 0: self.i[d] = Hist.tdiv(self.i[d], self.i[s])
        self.toks.append("i:div:%d:%d" % (d, s))

    def irem(self, d, s):
        if self.i[s] != 0: self.i[d] = self.i[d] - self.i[s] * Hist.tdiv(self.i[d], self.i[s])
        self.toks.append("i:rem:%d:%d" % (d, s))

    def ishl(self, d, k): self.i[d] <<= k; self.toks.append("i:shl:%d:%d:%x" % (d, d, k))
    def ishr(self, d, k): self.i[d] >>= k; self.toks.append("i:shr:%d:%d:%x" % (d, d, k))
    def iand(self, d, s): self.i[d] &= self.i[s]; self.toks.append("i:and:%d:%d" % (d, s))
    def ior(self, d, s): self.i[d] |= self.i[s]; self.toks.append("i:or:%d:%d" % (d, s))
    def ixor(self, d, s): self.i[d] ^= self.i[s]; self.toks.append("i:xor:%d:%d" % (d, s))

    def isetbit(self, d, k, v):
        self.i[d] = (self.i[d] | (1 << k)) if v else (self.i[d] & ~(1 << k))
        self.toks.append("i:setbit:%d:%d:%x,%x" % (d, d, k, 1 if v else 0))

    def mark(self): self.toks.append("!")

    def line(self):
        return "C04 hist %d %d %s ; %s" % (len(self.u0), len(self.i0),
                                          " ".join([wu(x) for x in self.u0] + [wi(x) for x in self.i0]),
                                          " ".join(self.toks))


def theme_grow_shrink(h, rng, n):
    """big += then -= back to small; the buffer keeps its large capacity"""
    small = big(rng, rng.choice([0, 1, 1, 2]))
    bigv = big(rng, n)
    h.uasg(0, small); h.uasg(1, bigv)
    k = rng.randrange(1, 5)
    for _ in range(k): h.uadd(0, 1)
    h.mark()
    for _ in range(k): h.usub(0, 1)
    h.uasg(2, small, pad=rng.randrange(0, 6))          # same integer by another route
    h.mark()
    h.usub(0, 0)                                         # exact cancellation -> empty vector
    h.uzero(3)
    # signed twin
    h.iset(0, signed(rng, small)); h.iset(1, signed(rng, bigv))
    for _ in range(k): h.iadd(0, 1)
    h.mark()
    for _ in range(k): h.isub(0, 1)
    h.iclone(2, 0); h.ineg(2); h.ineg(2)
    h.iclone(3, 1); h.isub(3, 1)                        # x - x = 0 must be NoSign/empty
    h.izero(1)


def theme_clone_short_into_long(h, rng, n):
    longv = big(rng, n); shortv = big(rng, rng.choice([0, 1, 2]))
    h.uasg(0, longv); h.uasg(1, shortv)
    h.uclone(0, 1)                                       # short value into the long buffer
    h.uclone(2, 0); h.uadd(2, 1); h.usub(2, 1)
    h.mark()
    h.uclone(1, 3); h.uclone(3, 0)
    h.iset(0, signed(rng, longv)); h.iset(1, signed(rng, shortv))
    h.iclone(0, 1)
    h.iclone(2, 1); h.iadd(2, 0); h.isub(2, 1)
    h.iclone(3, 0); h.ineg(3); h.iadd(3, 0)              # x + (-x) = 0


def theme_zero_then_add(h, rng, n):
    v = big(rng, n); w = big(rng, rng.randrange(0, n + 2))
    h.uasg(0, v); h.uzero(0); h.mark(); h.uasg(1, w); h.uadd(0, 1)
    h.uone(2); h.uadd(2, 1); h.uone(3); h.usub(2, 3)      # (1 + w) - 1 = w
    h.iset(0, signed(rng, v)); h.izero(0); h.mark(); h.iset(1, signed(rng, w)); h.iadd(0, 1)
    h.ione(2); h.iadd(2, 1); h.ione(3); h.isub(2, 3)
    h.izero(3); h.isub(3, 1); h.ineg(3)                   # -(0 - w) = w


def theme_borrow_chain(h, rng, n):
    """B^n - 1 (all ones, one digit shorter) and back: normalize after a full borrow chain"""
    top = B ** n
    h.uasg(0, top); h.uone(1); h.usub(0, 1); h.mark(); h.uadd(0, 1)
    h.uasg(2, top, pad=rng.randrange(1, 5))
    low = rng.randrange(1, B)
    h.uasg(3, top + low); h.usub(3, 2)                    # (B^n + low) - B^n = low: n zero digits stripped
    h.uasg(1, low)
    h.iset(0, signed(rng, top)); h.ione(1); h.isub(0, 1); h.mark(); h.iadd(0, 1)
    h.iset(2, top + low); h.iset(3, -top); h.iadd(2, 3)    # opposite signs, long cancellation
    h.iset(1, low)


def theme_converge(h, rng, n):
    """the same integer T reached in every register along a different route"""
    t = big(rng, n)
    k = big(rng, rng.randrange(1, n + 2))
    h.uasg(0, t, pad=rng.randrange(0, 6))
    h.uasg(1, t + k); h.uasg(2, k); h.usub(1, 2)          # (T+K) - K
    h.uzero(2)
    lo = t % (B ** (n // 2)) if n > 1 else 0
    h.uasg(3, t - lo); h.uasg(2, lo); h.uadd(2, 3)        # lo + (T - lo)
    h.uclone(3, 1)
    h.mark()
    s = rng.choice([1, -1])
    h.iset(0, s * t, pad=rng.randrange(0, 6))
    h.iset(1, -s * k); h.iset(2, s * (t + k)); h.iadd(1, 2)  # -K + (T+K) with the long operand on the right
    h.iset(2, -s * t); h.ineg(2)
    h.iset(3, s * (t + k)); h.iset(0, s * k); h.isub(3, 0)
    h.iset(0, s * t)


def theme_inconsistent_asg(h, rng, n):
    """assign_from_slice with inconsistent (sign, words) requests into long buffers"""
    v = big(rng, n)
    for d in range(4):
        h.iset(d, signed(rng, v))
    h.iasg(0, 1, big(rng, rng.randrange(1, 4)))          # NoSign with a non-zero magnitude -> 0
    h.iasg(1, 2, 0, pad=rng.randrange(0, 5))             # Plus with zero words -> 0
    h.iasg(2, 0, 0, pad=rng.randrange(0, 5))             # Minus with zero words -> 0
    h.izero(3)
    h.mark()
    h.iadd(0, 1); h.isub(1, 2); h.ineg(2)
    for d in range(4):
        h.uasg(d, v)
    h.uasg(0, 0, pad=rng.randrange(1, 6)); h.uzero(1); h.usub(2, 3)


WIDE = [1 << 64, (1 << 64) + 1, (1 << 128) - 1, 3 << 100, (1 << 127) - 1, 1 << 65, MAX + 2]


def theme_negpow_setbit(h, rng, n):
    """-(B^k) (top digit 1, all lower digits 0), then set_bit in a LOWER digit: the magnitude
    loses its top digit (B^k - 2^b); also the neighbouring cases"""
    k = rng.randrange(1, max(2, min(n, 5)) + 1)
    b = rng.choice([0, 1, 63, 64 * k - 1, rng.randrange(64 * k)])
    h.iset(0, -(B ** k)); h.isetbit(0, b, True)
    h.iset(1, -(B ** k) + (1 << b))                       # the same integer, built arithmetically
    h.mark()
    h.iset(2, -(B ** k)); h.isetbit(2, 64 * k, True)     # the top bit itself: -(B^k) | B^k = -(B^k) (already set in two's complement)
    h.iset(3, -(B ** k)); h.isetbit(3, rng.randrange(64 * k), False)   # clearing a zero bit of the expansion
    h.isetbit(3, 64 * k + rng.randrange(1, 70), False)    # clearing a one bit above: magnitude grows
    h.mark()
    # positive side / BigUint: clearing the only top bit shortens the value, possibly to zero
    h.uasg(0, B ** k); h.usetbit(0, 64 * k, False)        # -> 0
    h.uasg(1, B ** k + 5); h.usetbit(1, 64 * k, False)    # -> 5 (k digits stripped)
    h.uasg(2, 0); h.usetbit(2, 64 * k + 3, True); h.usetbit(2, 64 * k + 3, False)
    h.uasg(3, 5)
    h.iset(0, B ** k); h.isetbit(0, 64 * k, False)        # positive BigInt -> 0 must become NoSign
    h.iset(1, -(B ** k) - 1); h.isetbit(1, 0, True)       # no change: bit 0 of -(B^k)-1 is set
    h.iset(2, -1); h.isetbit(2, 64 * k, False)            # -1 & !2^(64k) = -(2^(64k)) - 1


def theme_zero_times_wide(h, rng, n):
    """a zero register (fresh, or brought to zero in place) times a scalar that needs two digits"""
    w = rng.choice(WIDE)
    v = big(rng, n)
    h.uzero(0); h.umuls(0, w, 128)                          # fresh zero
    h.uasg(1, v); h.usub(1, 1); h.umuls(1, rng.choice(WIDE), 128)   # brought to zero by x -= x
    h.uasg(2, v); h.ushr(2, 64 * n + rng.randrange(0, 70)); h.umuls(2, rng.choice(WIDE), 128)   # >>= to zero
    h.uasg(3, v); h.uclone(0, 3); h.uxor(3, 0); h.umuls(3, rng.choice(WIDE), 128)            # x ^= x
    h.mark()
    h.uasg(0, v); h.umuls(0, w, 128)                        # non-zero times wide
    h.uasg(1, v); h.umuls(1, 0, 128); h.umuls(1, w)         # times 0 through the u128 form, then wide
    h.uasg(2, v); h.uasg(3, w); h.umul(2, 3)                # register form, same product as register 0
    h.izero(0); h.imulu(0, rng.choice(WIDE))
    h.iset(1, signed(rng, v)); h.isub(1, 1); h.imuli(1, -rng.choice(WIDE[:2] + [1 << 127]))
    h.iset(2, signed(rng, v)); h.iclone(3, 2); h.imulu(2, w); h.imuli(3, -w if w < (1 << 127) else -(1 << 127))
    h.mark()
    h.iset(0, -v); h.imuli(0, -(1 << 127)); h.iset(1, v); h.imulu(1, 1 << 127)   # equal integers, two routes
    h.iset(2, v); h.imuli(2, 0); h.imulu(2, w)


def theme_shrink(h, rng, n):
    """&= to zero, >>= to zero, /= making the value shorter, %=, ^= with itself, |= into a longer buffer"""
    v = big(rng, n); lo = big(rng, max(1, n // 2))
    # disjoint bit masks: (v << 64n) & v = 0
    h.uasg(0, v); h.uclone(1, 0); h.ushl(1, 64 * n); h.uand(1, 0)          # -> 0 in a long buffer
    h.uasg(2, v); h.uasg(3, B ** (n - 1) if n > 1 else 3); h.udiv(2, 3)   # quotient has 1 digit (or fewer)
    h.mark()
    h.uasg(1, v * lo + 7); h.uasg(3, v); h.urem(1, 3)                      # remainder 7 % v
    h.uasg(2, v); h.udiv(2, 0)                                             # v / v = 1
    h.uasg(3, 0); h.udiv(2, 3); h.urem(2, 3)                               # zero divisor: not executed
    h.uasg(3, v); h.uor(3, 1); h.uxor(3, 3)                                # -> 0
    h.mark()
    s1, s2 = rng.choice([1, -1]), rng.choice([1, -1])
    h.iset(0, s1 * v); h.iset(1, s2 * (B ** (n - 1) if n > 1 else 3)); h.idiv(0, 1)
    h.iset(2, s1 * (v * lo + 7)); h.iset(3, s2 * v); h.irem(2, 3)
    h.iset(1, s1 * v); h.ishr(1, 64 * n + rng.randrange(0, 70))            # -> 0 (positive) or -1 (negative)
    h.mark()
    h.iset(0, s1 * v); h.iset(3, 0); h.idiv(0, 3); h.irem(0, 3)            # zero divisor: not executed
    h.iclone(3, 0); h.ixor(3, 0)                                           # x ^ x = 0
    h.iset(2, -v); h.iset(1, v - 1); h.iand(2, 1)                          # -v & (v-1): strips the low one-run
    h.iset(1, s1 * lo); h.idiv(1, 0)                                       # |lo| < |v| -> 0
    h.iset(2, -1); h.ior(2, 0)                                             # -1 | x = -1


def theme_bits(h, rng, n):
    """two's complement bit operations over all sign pairs, results crossing digit boundaries"""
    a = big(rng, n); b = big(rng, rng.randrange(1, n + 2))
    pats = [a, b, B ** n - 1, B ** n, B ** (n - 1) if n > 1 else 1, 1]
    for d in range(4):
        h.iset(d, signed(rng, rng.choice(pats)))
    for _ in range(6):
        d, s = rng.randrange(4), rng.randrange(4)
        rng.choice([h.iand, h.ior, h.ixor])(d, s)
    h.mark()
    h.iset(0, -(B ** n)); h.iset(1, B ** n - 1); h.ior(0, 1)               # -> -1
    h.iset(2, -(B ** n)); h.ixor(2, 1)                                     # -> -1... two routes
    h.iset(3, -1)
    h.ishl(3, 64 * n); h.ishr(3, 64 * n)                                   # -(B^n) >> 64n = -1
    for d in range(4):
        h.uasg(d, rng.choice(pats))
    for _ in range(5):
        d, s = rng.randrange(4), rng.randrange(4)
        rng.choice([h.uand, h.uor, h.uxor])(d, s)
    h.ushl(0, rng.randrange(0, 130)); h.ushr(0, rng.randrange(0, 200))


def theme_random(h, rng, n, length):
    pool = [0, 1, MAX, B, big(rng, n), big(rng, max(1, n // 2)), big(rng, 1)]
    for d in range(4):
        h.uasg(d, rng.choice(pool)); h.iset(d, signed(rng, rng.choice(pool)))
    cap = B ** (2 * n + 8)

    def more(step):
        """the further in-place operations (half of the random steps)"""
        d, s = rng.randrange(4), rng.randrange(4)
        r = rng.randrange(100)
        sh = rng.choice([0, 1, 63, 64, 65, 128, rng.randrange(0, 300)])
        bit = rng.choice([0, 63, 64, rng.randrange(0, 64 * n + 70)])
        if rng.randrange(2):
            if r < 12: h.umul(d, s)
            elif r < 22: h.umuls(d, rng.choice([0, 1, 2, 3, MAX, 1 << 31] + WIDE), rng.choice([None, 128]))
            elif r < 34: h.udiv(d, s)
            elif r < 46: h.urem(d, s)
            elif r < 54: h.ushl(d, sh)
            elif r < 64: h.ushr(d, sh)
            elif r < 72: h.uand(d, s)
            elif r < 80: h.uor(d, s)
            elif r < 88: h.uxor(d, s)
            else: h.usetbit(d, bit, rng.randrange(2) == 1)
        else:
            if r < 12: h.imul(d, s)
            elif r < 18: h.imulu(d, rng.choice([0, 1, 3, MAX] + WIDE))
            elif r < 24: h.imuli(d, signed(rng, rng.choice([0, 1, 3, MAX, 1 << 64, (1 << 127) - 1])))
            elif r < 35: h.idiv(d, s)
            elif r < 46: h.irem(d, s)
            elif r < 54: h.ishl(d, sh)
            elif r < 64: h.ishr(d, sh)
            elif r < 72: h.iand(d, s)
            elif r < 80: h.ior(d, s)
            elif r < 88: h.ixor(d, s)
            else: h.isetbit(d, bit, rng.randrange(2) == 1)
        for q in range(4):
            if h.u[q] >= cap: h.uasg(q, rng.choice(pool))
            if abs(h.i[q]) >= cap: h.iset(q, signed(rng, rng.choice(pool)))

    for step in range(length):
        if rng.randrange(2):
            more(step)
            if step % 5 == 4 and rng.randrange(3) == 0:
                h.mark()
            continue
        d, s = rng.randrange(4), rng.randrange(4)
        r = rng.randrange(100)
        if rng.randrange(2):
            if r < 30: h.uadd(d, s)
            elif r < 65: h.usub(d, s)
            elif r < 70: h.uzero(d)
            elif r < 75: h.uone(d)
            elif r < 88: h.uclone(d, s)
            else: h.uasg(d, rng.choice(pool))
        else:
            if r < 28: h.iadd(d, s)
            elif r < 56: h.isub(d, s)
            elif r < 61: h.izero(d)
            elif r < 66: h.ione(d)
            elif r < 76: h.iclone(d, s)
            elif r < 88: h.ineg(d)
            else: h.iasg(d, rng.randrange(3), rng.choice(pool))
        if step % 5 == 4 and rng.randrange(3) == 0:
            h.mark()
        # keep magnitudes from exploding
        if step % 16 == 15:
            for q in range(4):
                if h.u[q] >= B ** (2 * n + 8): h.uasg(q, rng.choice(pool))
                if abs(h.i[q]) >= B ** (2 * n + 8): h.iset(q, signed(rng, rng.choice(pool)))


THEMES = [theme_grow_shrink, theme_clone_short_into_long, theme_zero_then_add, theme_borrow_chain,
          theme_converge, theme_inconsistent_asg,
          theme_negpow_setbit, theme_zero_times_wide, theme_shrink, theme_bits,
          theme_negpow_setbit, theme_zero_times_wide, theme_shrink]


def hist_requests(rng, tier):
    reqs = []
    n_hist = 10000 if tier == "thorough" else 1500
    max_len = 400 if tier == "thorough" else 40
    sizes = [1, 2, 3, 4, 5, 6, 9, 10, 11, 16, 20] + ([40, 64, 100] if tier == "thorough" else [])
    for k in range(n_hist):
        n = rng.choice(sizes)
        init_u = [big(rng, rng.choice([0, 1, 2, n])) for _ in range(4)]
        init_i = [signed(rng, big(rng, rng.choice([0, 1, 2, n]))) for _ in range(4)]
        h = Hist(rng, init_u, init_i)
        if k % 2 == 0:
            # one or several themes in a row on the same registers (buffers carry over)
            for _ in range(rng.randrange(1, 4)):
                rng.choice(THEMES)(h, rng, n)
            if len(h.toks) > max_len + 40:
                h.toks = h.toks[:max_len + 40]
                # replay the truncated token list to be safe (values are recomputed by the driver anyway)
        else:
            length = rng.randrange(5, max_len + 1) if tier != "thorough" or k % 20 else max_len
            theme_random(h, rng, min(n, 20), length)
        reqs.append(h.line())
    return reqs


def rel_requests(rng, tier):
    """api-coverage block: PartialOrd (`partial_cmp`, `< <= > >=`), `!=`, `clone` on the comparison pairs"""
    reqs = []
    ns = [0, 1, 2, 3, 5, 9] + ([33, 64] if tier == "thorough" else [])
    for n in ns:
        vs = list(dict.fromkeys(neighbours(rng, n)))
        k = len(vs)
        picks = [(rng.randrange(k), rng.randrange(k)) for _ in range(10)] + [(i, i) for i in range(0, k, 4)] \
            + [(i, i + 1) for i in range(0, k - 1, 2)]
        for (i, j) in picks:
            a, b = vs[i], vs[j]
            reqs.append("C04 %s %s %s" % (rng.choice(["u.rel", "u.rel", "u.partial_cmp"]), wu(a), wu(b)))
            for (sa, sb) in rng.sample([(1, 1), (1, -1), (-1, 1), (-1, -1)], 2):
                reqs.append("C04 %s %s %s" % (rng.choice(["i.rel", "i.rel", "i.partial_cmp"]), wi(sa * a), wi(sb * b)))
        for a in vs[:6]:
            reqs.append("C04 u.clone %s" % wu(a))
            reqs.append("C04 i.clone %s" % wi(signed(rng, a)))
    return reqs


def arb_bytes(rng, digs, stop=None, tail=b""):
    """byte buffer that the `arbitrary` crate decodes into the u64 list `digs`: per element one odd continuation
    byte and 8 little-endian bytes; then `stop` (an even byte, or nothing = exhausted input) and `tail`"""
    out = bytearray()
    for d in digs:
        out.append(rng.randrange(256) | 1)
        out += d.to_bytes(8, "little")
    if stop is not None:
        out.append(stop & 0xfe)
    return bytes(out) + tail


def harness_has(probe_line):
    """does the harness built by this check run support an op?  (`arb.*` / `qc.*` exist only when the harness is built
    with its `arbitrary` / `quickcheck` features — they are in its default feature set; if they are ever taken out of
    it, these requests are simply not generated instead of coming back `unsupported`).  NB_C04_GENERATORS=0/1 overrides."""
    import os, subprocess
    ov = os.environ.get("NB_C04_GENERATORS")
    if ov in ("0", "1"):
        return ov == "1"
    verif = os.path.dirname(os.path.dirname(os.path.dirname(os.path.abspath(__file__))))
    for prof in ("release", "debug"):
        binp = os.path.join(verif, "build", "cargo", prof, "nbharness")
        if os.path.exists(binp):
            try:
                out = subprocess.run([binp], input=probe_line + "\n", capture_output=True, text=True, timeout=20).stdout
                return not out.startswith("unsupported")
            except Exception:  # noqa: BLE001
                return False
    return False


def arbitrary_requests(rng, tier):
    """api-coverage block: values produced by `arbitrary::Arbitrary` (byte buffers whose decoded digit vector has
    0..3 high zero digits, is all zero, empty, ends in a truncated element, or stops early with unread bytes) and by
    `quickcheck::Arbitrary` (many seeds x sizes; the harness compares with a reference and checks the shrinker)"""
    reqs = []
    have_arb, have_qc = harness_has("C04 arb.u x"), harness_has("C04 qc.u 1 1")
    thorough = tier == "thorough"
    lens = [0, 1, 2, 3, 5, 8] + ([17, 40] if thorough else [12])
    for n in lens:
        for pat in ("rand", "ones", "lowzero", "sparse"):
            ds = digits(rng, n, pat) if n else []
            if ds and ds[-1] == 0:
                ds[-1] = 1
            for hz in (0, 1, 2, 3):                       # redundant high zero digits: must be stripped
                for stop in (None, 0, 2):
                    body = arb_bytes(rng, ds + [0] * hz, stop, bytes(rng.randrange(256) for _ in range(rng.choice([0, 0, 3, 9]))) if stop is not None else b"")
                    for sgn in (1, 0, 2, 3):              # BigInt: leading bool byte (odd = Plus)
                        reqs.append("C04 arb.i%s %s" % (rng.choice(["", "_rest"]), wbytes(bytes([sgn]) + body)))
                    reqs.append("C04 arb.u%s %s" % (rng.choice(["", "_rest"]), wbytes(body)))
        # all-zero vectors of n digits (value zero: NoSign for both sign requests)
        body = arb_bytes(rng, [0] * n, None)
        reqs.append("C04 arb.u %s" % wbytes(body)); reqs.append("C04 arb.u_rest %s" % wbytes(body))
        reqs.append("C04 arb.i %s" % wbytes(b"\x01" + body)); reqs.append("C04 arb.i_rest %s" % wbytes(b"\x00" + body))
    # truncated last element (zero padded by fill_buffer), every cut position; a lone continuation byte
    full = arb_bytes(rng, [MAX, rng.randrange(1, B)], None)
    for cut in range(0, len(full) + 1):
        reqs.append("C04 arb.u %s" % wbytes(full[:cut]))
        reqs.append("C04 arb.u_rest %s" % wbytes(full[:cut]))
        reqs.append("C04 arb.i %s" % wbytes(b"\x01" + full[:cut]))
        reqs.append("C04 arb.i_rest %s" % wbytes(b"\xfe" + full[:cut]))
    reqs += ["C04 arb.u x", "C04 arb.i x", "C04 arb.u_rest x", "C04 arb.i_rest x", "C04 arb.u x01", "C04 arb.i x0101"]
    for _ in range(400 if thorough else 60):
        raw = bytes(rng.randrange(256) for _ in range(rng.randrange(0, 80)))
        reqs.append("C04 arb.%s %s" % (rng.choice(["u", "u_rest", "i", "i_rest"]), wbytes(raw)))
    for d in (0, 1, 5):
        reqs.append("C04 arb.u_size_hint %d" % d)
        reqs.append("C04 arb.i_size_hint %d" % d)
    if not have_arb:
        reqs = []
    # quickcheck
    for size in (1, 2, 3, 5, 10, 30, 100):
        for _ in range(60 if thorough else 12):
            seed = rng.randrange(1 << 64)
            if have_qc:
                reqs.append("C04 qc.u %d %d" % (size, seed))
                reqs.append("C04 qc.i %d %d" % (size, seed))
    return reqs


def gen(rng, tier):
    return (cmp_requests(rng, tier) + ctor_requests(rng, tier) + hist_requests(rng, tier)
            + rel_requests(rng, tier) + arbitrary_requests(rng, tier))
