//! stream C02: multiplication
use crate::wire::*;
use num_traits::CheckedMul;

pub fn handle(op: &str, a: &[&str]) -> Option<String> {
    Some(match (op, a) {
        ("u.mul", [x, y]) => ok_u(&(&parse_u(x)? * &parse_u(y)?)),
        ("u.mul_assign", [x, y]) => {
            let mut v = parse_u(x)?;
            v *= &parse_u(y)?;
            ok_u(&v)
        }
        ("u.checked_mul", [x, y]) => opt_u(&parse_u(x)?.checked_mul(&parse_u(y)?)),
        ("i.mul", [x, y]) => ok_i(&(&parse_i(x)? * &parse_i(y)?)),
        ("i.mul_assign", [x, y]) => {
            let mut v = parse_i(x)?;
            v *= &parse_i(y)?;
            ok_i(&v)
        }
        ("i.checked_mul", [x, y]) => opt_i(&parse_i(x)?.checked_mul(&parse_i(y)?)),
        #[cfg(num_bigint_verif)]
        ("raw.mac3", [acc, b, c]) => {
            let mut acc = parse_limbs(acc)?;
            let b = parse_limbs(b)?;
            let c = parse_limbs(c)?;
            num_bigint::verif::mac3(&mut acc, &b, &c);
            format!("ok {}", show_limbs(&acc))
        }
        #[cfg(num_bigint_verif)]
        ("raw.sub_sign", [x, y]) => {
            let a = parse_limbs(x)?;
            let b = parse_limbs(y)?;
            let (s, m) = num_bigint::verif::sub_sign(&a, &b);
            format!("ok {}{}", show_sign(s), show_limbs(num_bigint::verif::raw_digits(&m)))
        }
        _ => return None,
    })
}
