/-
  NB.Model.Convert — model of the primitive-integer conversions of
  src/biguint/convert.rs, src/bigint/convert.rs, src/lib.rs (TryFromBigIntError) and of the
  num-traits 0.2.19 defaults they inherit (src/cast.rs: `ToPrimitive::to_u8 … to_isize`,
  `FromPrimitive::from_i8 … from_usize`, the `impl_to_primitive_*` macros for `u64`/`i64`).

  A primitive integer is an `Int` (its mathematical value) together with a type tag `PTy`
  (bit width, signedness).  `x as T` is the two's-complement wrap `asCast`.  Every `+`, `-`
  that the Rust code performs on primitives is an explicit overflow site
  (`.error (.internal …)`); the theorems of NB.Props.C08 show they are unreachable.

  Assumptions recorded here: 64-bit target (`usize`/`isize` are 64 bits wide, `BigDigit = u64`).
  Everything lives in `NB.Conv` so that names cannot clash with other model files.
-/
import NB.Base
namespace NB.Conv

/-- `big_digit::BITS` on the modelled target (B = 2^digitBits, see `NB.B`) -/
def digitBits : Nat := 64

/-- the twelve primitive integer types -/
inductive PTy where
  | u8 | u16 | u32 | u64 | u128 | usize | i8 | i16 | i32 | i64 | i128 | isize
  deriving DecidableEq, Repr, Inhabited

def PTy.bits : PTy → Nat
  | .u8 | .i8 => 8
  | .u16 | .i16 => 16
  | .u32 | .i32 => 32
  | .u64 | .i64 | .usize | .isize => 64
  | .u128 | .i128 => 128

def PTy.signed : PTy → Bool
  | .i8 | .i16 | .i32 | .i64 | .i128 | .isize => true
  | _ => false

/-- `T::MIN` -/
def PTy.minV (t : PTy) : Int := if t.signed then -((2 : Int) ^ (t.bits - 1)) else 0
/-- `T::MAX` -/
def PTy.maxV (t : PTy) : Int :=
  if t.signed then (2 : Int) ^ (t.bits - 1) - 1 else (2 : Int) ^ t.bits - 1

def PTy.InRange (t : PTy) (x : Int) : Prop := t.minV ≤ x ∧ x ≤ t.maxV
instance (t : PTy) (x : Int) : Decidable (t.InRange x) := by unfold PTy.InRange; infer_instance

def PTy.all : List PTy :=
  [.u8, .u16, .u32, .u64, .u128, .usize, .i8, .i16, .i32, .i64, .i128, .isize]

/-- `x as T` between integer types: keep the low `bits` bits, reinterpret -/
def asCast (t : PTy) (x : Int) : Int :=
  let m : Int := (2 : Int) ^ t.bits
  let r := x % m
  if t.signed ∧ (2 : Int) ^ (t.bits - 1) ≤ r then r - m else r

/-- num-traits `impl_to_primitive_{int,uint}_to_{int,uint}!`: `Src::to_dst(&self)`.
    `size_of` comparisons are comparisons of bit widths. -/
def primTo (src dst : PTy) (x : Int) : Option Int :=
  match src.signed, dst.signed with
  | true, true =>
    let min := asCast src dst.minV
    let max := asCast src dst.maxV
    if src.bits ≤ dst.bits ∨ (min ≤ x ∧ x ≤ max) then some (asCast dst x) else none
  | true, false =>
    let max := asCast src dst.maxV
    if 0 ≤ x ∧ (src.bits ≤ dst.bits ∨ x ≤ max) then some (asCast dst x) else none
  | false, true =>
    let max := asCast src dst.maxV
    if src.bits < dst.bits ∨ x ≤ max then some (asCast dst x) else none
  | false, false =>
    let max := asCast src dst.maxV
    if src.bits ≤ dst.bits ∨ x ≤ max then some (asCast dst x) else none

/-! ### BigUint → primitive (`impl ToPrimitive for BigUint`) -/

/-- loop of `BigUint::to_u64`: `for i in data { if bits >= 64 {return None}; ret += i << bits; bits += BITS }`.
    The `+=` is an overflow site. -/
def toU64Loop : List Nat → Nat → Nat → Except Panic (Option Nat)
  | [], ret, _ => .ok (some ret)
  | d :: ds, ret, bits =>
    if bits ≥ 64 then .ok none
    else
      let sh := (d <<< bits) % 2 ^ 64
      if ret + sh ≥ 2 ^ 64 then .error (.internal "to_u64 add overflow")
      else toU64Loop ds (ret + sh) (bits + digitBits)

def U.toU64 (x : List Nat) : Except Panic (Option Nat) := toU64Loop x 0 0

/-- loop of `BigUint::to_u128`: `ret |= u128::from(i) << bits` -/
def toU128Loop : List Nat → Nat → Nat → Option Nat
  | [], ret, _ => some ret
  | d :: ds, ret, bits =>
    if bits ≥ 128 then none
    else toU128Loop ds (ret ||| ((d <<< bits) % 2 ^ 128)) (bits + digitBits)

def U.toU128 (x : List Nat) : Option Nat := toU128Loop x 0 0

def natOpt (o : Option Nat) : Option Int := o.map (fun n => (n : Int))

/-- `self.to_u64().as_ref().and_then(u64::to_i64)` -/
def U.toI64 (x : List Nat) : Except Panic (Option Int) := do
  let r ← U.toU64 x
  pure ((natOpt r).bind (primTo .u64 .i64))

/-- `self.to_u128().as_ref().and_then(u128::to_i128)` -/
def U.toI128 (x : List Nat) : Except Panic (Option Int) :=
  pure ((natOpt (U.toU128 x)).bind (primTo .u128 .i128))

/-- `BigUint::to_<t>()`: the four overridden methods, the num-traits defaults for the rest
    (unsigned through `to_u64`, signed through `to_i64`) -/
def U.toPrim (t : PTy) (x : List Nat) : Except Panic (Option Int) :=
  match t with
  | .u64 => do let r ← U.toU64 x; pure (natOpt r)
  | .u128 => pure (natOpt (U.toU128 x))
  | .i64 => U.toI64 x
  | .i128 => U.toI128 x
  | .u8 | .u16 | .u32 | .usize => do
    let r ← U.toU64 x
    pure ((natOpt r).bind (primTo .u64 t))
  | .i8 | .i16 | .i32 | .isize => do
    let r ← U.toI64 x
    pure (r.bind (primTo .i64 t))

/-! ### BigInt → primitive (`impl ToPrimitive for BigInt`) -/

/-- the `Minus` arm of `BigInt::to_i64` / `to_i128`: `n.cmp(&(1 << (bits-1)))` -/
def negArm (t : PTy) (n : Nat) : Option Int :=
  let m : Nat := 2 ^ (t.bits - 1)
  match compare n m with
  | .lt => some (-(asCast t n))
  | .eq => some t.minV
  | .gt => none

def I.toI64 (x : BigInt) : Except Panic (Option Int) :=
  match x.sign with
  | .plus => U.toI64 x.mag
  | .nosign => pure (some 0)
  | .minus => do
    let r ← U.toU64 x.mag
    pure (r.bind (negArm .i64))

def I.toI128 (x : BigInt) : Except Panic (Option Int) :=
  match x.sign with
  | .plus => U.toI128 x.mag
  | .nosign => pure (some 0)
  | .minus => pure ((U.toU128 x.mag).bind (negArm .i128))

def I.toU64 (x : BigInt) : Except Panic (Option Int) :=
  match x.sign with
  | .plus => do let r ← U.toU64 x.mag; pure (natOpt r)
  | .nosign => pure (some 0)
  | .minus => pure none

def I.toU128 (x : BigInt) : Except Panic (Option Int) :=
  match x.sign with
  | .plus => pure (natOpt (U.toU128 x.mag))
  | .nosign => pure (some 0)
  | .minus => pure none

def I.toPrim (t : PTy) (x : BigInt) : Except Panic (Option Int) :=
  match t with
  | .u64 => I.toU64 x
  | .u128 => I.toU128 x
  | .i64 => I.toI64 x
  | .i128 => I.toI128 x
  | .u8 | .u16 | .u32 | .usize => do
    let r ← I.toU64 x
    pure (r.bind (primTo .u64 t))
  | .i8 | .i16 | .i32 | .isize => do
    let r ← I.toI64 x
    pure (r.bind (primTo .i64 t))

/-! ### `TryFrom<BigUint> for T`, `TryFrom<BigInt> for T` (error carries the original) -/

/-- `Result<T, TryFromBigIntError<Big>>`; `err v` is `TryFromBigIntError { original: v }` -/
inductive TryRes (α ε : Type) where
  | ok (v : α)
  | err (original : ε)
  deriving DecidableEq, Repr

/-- `<T>::try_from(&value).map_err(|_| TryFromBigIntError::new(value))` -/
def U.tryInto (t : PTy) (x : List Nat) : Except Panic (TryRes Int (List Nat)) := do
  let r ← U.toPrim t x            -- `TryFrom<&BigUint>`: `to_t(value).ok_or(TryFromBigIntError::new(()))`
  pure (match r with | some v => .ok v | none => .err x)

def I.tryInto (t : PTy) (x : BigInt) : Except Panic (TryRes Int BigInt) := do
  let r ← I.toPrim t x
  pure (match r with | some v => .ok v | none => .err x)

/-! ### primitive → BigUint -/

/-- `impl From<u64> for BigUint`: `while n != 0 { push(n as BigDigit); n = (n >> 1) >> (BITS - 1) }` -/
def U.fromU64 (n : Nat) : List Nat :=
  if h : n = 0 then [] else (n % B) :: U.fromU64 ((n / 2) / 2 ^ (digitBits - 1))
decreasing_by
  have : n / 2 < n := Nat.div_lt_self (Nat.pos_of_ne_zero h) (by decide)
  exact Nat.lt_of_le_of_lt (Nat.div_le_self _ _) this

/-- `impl From<u128> for BigUint`: `while n != 0 { push(n as BigDigit); n >>= BITS }` -/
def U.fromU128 (n : Nat) : List Nat :=
  if h : n = 0 then [] else (n % B) :: U.fromU128 (n / 2 ^ digitBits)
decreasing_by
  exact Nat.div_lt_self (Nat.pos_of_ne_zero h) (by decide)

/-- `impl From<T> for BigUint`, T unsigned: `u64`, `u128` directly, the others `BigUint::from(n as u64)`.
    (No such impl exists for signed T; the model returns `none` there.) -/
def U.from (t : PTy) (n : Int) : Option (List Nat) :=
  match t with
  | .u64 => some (U.fromU64 n.toNat)
  | .u128 => some (U.fromU128 n.toNat)
  | .u8 | .u16 | .u32 | .usize => some (U.fromU64 (asCast .u64 n).toNat)
  | _ => none

/-- `BigUint::from_i64` -/
def U.fromI64 (n : Int) : Option (List Nat) :=
  if n ≥ 0 then some (U.fromU64 (asCast .u64 n).toNat) else none
/-- `BigUint::from_i128` -/
def U.fromI128 (n : Int) : Option (List Nat) :=
  if n ≥ 0 then some (U.fromU128 (asCast .u128 n).toNat) else none

/-- `<BigUint as FromPrimitive>::from_<t>(n)`: overridden `from_i64/i128/u64/u128`, num-traits
    defaults for the rest (`From::from` widening, `isize`/`usize` through `to_i64`/`to_u64`) -/
def U.fromPrim (t : PTy) (n : Int) : Option (List Nat) :=
  match t with
  | .i64 => U.fromI64 n
  | .i128 => U.fromI128 n
  | .u64 => some (U.fromU64 n.toNat)
  | .u128 => some (U.fromU128 n.toNat)
  | .i8 | .i16 | .i32 => U.fromI64 (asCast .i64 n)
  | .isize => (primTo .isize .i64 n).bind U.fromI64
  | .u8 | .u16 | .u32 => some (U.fromU64 (asCast .u64 n).toNat)
  | .usize => (primTo .usize .u64 n).bind (fun m => some (U.fromU64 m.toNat))

/-- `impl From<bool> for BigUint` -/
def U.fromBool (b : Bool) : List Nat := if b then [1] else []

/-! ### primitive → BigInt -/

/-- `impl From<u64> for BigInt` -/
def I.fromU64 (n : Nat) : BigInt := if n > 0 then ⟨.plus, U.fromU64 n⟩ else ⟨.nosign, []⟩
/-- `impl From<u128> for BigInt` -/
def I.fromU128 (n : Nat) : BigInt := if n > 0 then ⟨.plus, U.fromU128 n⟩ else ⟨.nosign, []⟩

/-- the negative arm `let u = T::MAX - (n as uT) + 1` of `From<i64>` / `From<i128>`
    (`ut` is the unsigned type of the same width); both the `-` and the `+` are overflow sites -/
def negMag (ut : PTy) (n : Int) : Except Panic Nat :=
  let nu := asCast ut n
  if ut.maxV < nu then .error (.internal "from_int sub overflow")
  else
    let u := ut.maxV - nu + 1
    if ut.maxV < u then .error (.internal "from_int add overflow")
    else .ok u.toNat

/-- `impl From<i64> for BigInt` -/
def I.fromI64 (n : Int) : Except Panic BigInt :=
  if n ≥ 0 then .ok (I.fromU64 (asCast .u64 n).toNat)
  else do
    let u ← negMag .u64 n
    pure ⟨.minus, U.fromU64 u⟩

/-- `impl From<i128> for BigInt` -/
def I.fromI128 (n : Int) : Except Panic BigInt :=
  if n ≥ 0 then .ok (I.fromU128 (asCast .u128 n).toNat)
  else do
    let u ← negMag .u128 n
    pure ⟨.minus, U.fromU128 u⟩

/-- `impl From<T> for BigInt` for the twelve types -/
def I.from (t : PTy) (n : Int) : Except Panic BigInt :=
  match t with
  | .i64 => I.fromI64 n
  | .i128 => I.fromI128 n
  | .u64 => .ok (I.fromU64 n.toNat)
  | .u128 => .ok (I.fromU128 n.toNat)
  | .i8 | .i16 | .i32 | .isize => I.fromI64 (asCast .i64 n)
  | .u8 | .u16 | .u32 | .usize => .ok (I.fromU64 (asCast .u64 n).toNat)

/-- `<BigInt as FromPrimitive>::from_<t>(n)` -/
def I.fromPrim (t : PTy) (n : Int) : Except Panic (Option BigInt) :=
  match t with
  | .i64 => do let r ← I.fromI64 n; pure (some r)
  | .i128 => do let r ← I.fromI128 n; pure (some r)
  | .u64 => pure (some (I.fromU64 n.toNat))
  | .u128 => pure (some (I.fromU128 n.toNat))
  | .i8 | .i16 | .i32 => do let r ← I.fromI64 (asCast .i64 n); pure (some r)
  | .isize =>
    match primTo .isize .i64 n with
    | some m => do let r ← I.fromI64 m; pure (some r)
    | none => pure none
  | .u8 | .u16 | .u32 => pure (some (I.fromU64 (asCast .u64 n).toNat))
  | .usize =>
    match primTo .usize .u64 n with
    | some m => pure (some (I.fromU64 m.toNat))
    | none => pure none

/-- `impl From<bool> for BigInt` -/
def I.fromBool (b : Bool) : BigInt := if b then ⟨.plus, [1]⟩ else ⟨.nosign, []⟩

/-! ### BigUint ↔ BigInt -/

/-- `impl From<BigUint> for BigInt`, `impl ToBigInt for BigUint` (same case split) -/
def I.fromBiguint (n : List Nat) : BigInt :=
  if n = [] then ⟨.nosign, []⟩ else ⟨.plus, n⟩

/-- `impl ToBigUint for BigInt` -/
def I.toBiguint (x : BigInt) : Option (List Nat) :=
  match x.sign with
  | .plus => some x.mag
  | .nosign => some []
  | .minus => none

/-- `impl TryFrom<BigInt> for BigUint`: `if sign == Minus { Err(value) } else { Ok(value.data) }` -/
def U.tryFromBigInt (x : BigInt) : TryRes (List Nat) BigInt :=
  if x.sign = .minus then .err x else .ok x.mag

/-- `impl TryFrom<&BigInt> for BigUint`: `value.to_biguint().ok_or_else(…)` -/
def U.tryFromBigIntRef (x : BigInt) : TryRes (List Nat) Unit :=
  match I.toBiguint x with
  | some v => .ok v
  | none => .err ()

end NB.Conv
