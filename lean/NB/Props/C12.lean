/-
  C12 — Exponentiation is exact for every exponent type.

  Model: NB.Model.Pow (value-level transcription of `pow_impl!` and `Pow<&BigUint>` of
  src/biguint/power.rs, `powsign` and `pow_impl!` of src/bigint/power.rs; correspondence-checked
  against the crate on every run).  The macro body is the same for u8…u128/usize, so one theorem
  covers all primitive exponent types; the four operand forms are separate model functions and
  all equal `x^e`.  Fuel of both loops (`powFuel e` = bit length of the exponent, at most the width
  of the exponent type) is proved sufficient, so the loops terminate and never hit the fuel error.
-/
import NB.Lemmas.Pow
namespace NB
open NB.Pow NB.IntVal

/-- first loop (strip trailing zero bits by squaring): stops at an odd exponent with the power unchanged -/
theorem pow_sq_phase (base exp fuel : Nat) (h0 : exp ≠ 0) (hf : exp < 2 ^ fuel) :
    ∃ b' e', sqLoop fuel base exp = .ok (b', e') ∧ e' % 2 = 1 ∧ e' ≤ exp ∧ b' ^ e' = base ^ exp :=
  sqLoop_spec fuel base exp h0 hf

/-- second loop (square, multiply when the bit is set): invariant `acc · (base²)^(exp/2)` -/
theorem pow_acc_phase (base exp acc fuel : Nat) (h0 : exp ≠ 0) (hf : exp < 2 ^ fuel) :
    accLoop fuel base exp acc = .ok (acc * (base * base) ^ (exp / 2)) :=
  accLoop_spec fuel base exp acc h0 hf

/-- the fuel handed to both loops is enough: `e < 2^(powFuel e)` -/
theorem pow_fuel_sufficient (e : Nat) : e < 2 ^ powFuel e := lt_two_pow_powFuel e

/-- `impl Pow<$T> for BigUint`: exactly `x^e`, every `x`, every `e` (so every exponent type) -/
theorem pow_spec (x e : Nat) : powVV x e = .ok (x ^ e) := powVV_ok x e

/-- all four operand forms (base by value/reference × exponent by value/reference) -/
theorem pow_forms_spec (f : Form) (x e : Nat) : powPrim f x e = .ok (x ^ e) := powPrim_ok f x e

/-- `0^0 = 1` (and `x^0 = 1`) in every form -/
theorem pow_zero_exp (f : Form) (x : Nat) : powPrim f x 0 = .ok 1 := by
  rw [powPrim_ok]; simp

theorem pow_zero_zero (f : Form) : powPrim f 0 0 = .ok 1 := pow_zero_exp f 0

/-- BigUint exponent, `Pow<&BigUint> for BigUint`: short-cuts, narrowing to u64 / u128, else the
    capacity panic — which happens exactly when `x ≥ 2` and `e ≥ 2^128` -/
theorem pow_big_spec (f : Form) (x e : Nat) :
    powBig f x e = if 2 ≤ x ∧ 2 ^ 128 ≤ e then .error .capacity else .ok (x ^ e) := by
  have hB : B * B = 2 ^ 128 := by decide
  have key : powBigVR x e = if 2 ≤ x ∧ 2 ^ 128 ≤ e then .error .capacity else .ok (x ^ e) := by
    unfold powBigVR
    by_cases h1 : x = 1 ∨ e = 0
    · have : ¬ (2 ≤ x ∧ 2 ^ 128 ≤ e) := by
        rcases h1 with h | h
        · omega
        · subst h; simp
      rw [if_pos h1, if_neg this]
      rcases h1 with h | h <;> subst h <;> simp
    · rw [if_neg h1]
      by_cases h2 : x = 0
      · have : ¬ (2 ≤ x ∧ 2 ^ 128 ≤ e) := by omega
        rw [if_pos h2, if_neg this, h2, Nat.zero_pow (by omega)]
      · rw [if_neg h2]
        by_cases h3 : e < B
        · have : ¬ (2 ≤ x ∧ 2 ^ 128 ≤ e) := by
            have : B ≤ 2 ^ 128 := by decide
            omega
          rw [if_pos h3, if_neg this, powVV_ok]
        · rw [if_neg h3]
          by_cases h4 : e < B * B
          · have : ¬ (2 ≤ x ∧ 2 ^ 128 ≤ e) := by omega
            rw [if_pos h4, if_neg this, powVV_ok]
          · have : 2 ≤ x ∧ 2 ^ 128 ≤ e := by omega
            rw [if_neg h4, if_pos this]
  have key2 : powBigRR x e = powBigVR x e := by
    unfold powBigRR
    by_cases h1 : x = 1 ∨ e = 0
    · rw [if_pos h1]; unfold powBigVR; rw [if_pos h1]
    · rw [if_neg h1]
      by_cases h2 : x = 0
      · rw [if_pos h2]; unfold powBigVR; rw [if_neg h1, if_pos h2]
      · rw [if_neg h2]
  cases f <;> simp only [powBig, powBigVV, powBigRV, key2, key]

/-- u64 / u128 narrowing is value-preserving: both arms run the same loop on the same exponent -/
theorem pow_big_narrowing (x e : Nat) (h : e < 2 ^ 128) : powBigVR x e = .ok (x ^ e) := by
  have := pow_big_spec .vr x e
  simp only [powBig] at this
  rw [this, if_neg (by omega)]

/-! ### BigInt -/

theorem fromBiguint_powsign (x : Int) (e : Nat) :
    fromBiguint (powsign (signOf x) e) (x.natAbs ^ e) = x ^ e := by
  unfold powsign
  by_cases he : e = 0
  · subst he; simp [fromBiguint]
  · rw [if_neg he]
    by_cases hneg : x < 0
    · have hs : signOf x = .minus := by simp [signOf, hneg]
      have hx : x = - (x.natAbs : Int) := by omega
      rw [hs]
      by_cases ho : e % 2 = 1
      · have : (Sign.minus ≠ Sign.minus ∨ e % 2 = 1) := Or.inr ho
        rw [if_pos this]
        simp only [fromBiguint]
        conv_rhs => rw [hx, Odd.neg_pow (Nat.odd_iff.mpr ho)]
        push_cast; rfl
      · have : ¬ (Sign.minus ≠ Sign.minus ∨ e % 2 = 1) := by simp [ho]
        rw [if_neg this]
        simp only [Sign.neg, fromBiguint]
        conv_rhs => rw [hx, Even.neg_pow (Nat.even_iff.mpr (by omega))]
        push_cast; rfl
    · by_cases h0 : x = 0
      · subst h0
        simp [signOf, fromBiguint, he]
      · have hs : signOf x = .plus := by simp [signOf, hneg, h0]
        have hx : x = (x.natAbs : Int) := by omega
        rw [hs]
        simp only [ne_eq, reduceCtorEq, not_false_eq_true, true_or, if_true, fromBiguint]
        conv_rhs => rw [hx]
        push_cast; rfl

/-- BigInt `pow` for primitive exponents, all forms: exactly `x^e` on the integers -/
theorem bigint_pow_spec (f : Form) (x : Int) (e : Nat) : bigintPow f x e = .ok (x ^ e) := by
  unfold bigintPow
  simp only [powPrim_ok, fromBiguint_powsign]

/-- BigInt `pow` with a BigUint exponent -/
theorem bigint_pow_big_spec (f : Form) (x : Int) (e : Nat) :
    bigintPowBig f x e = if 2 ≤ x.natAbs ∧ 2 ^ 128 ≤ e then .error .capacity else .ok (x ^ e) := by
  unfold bigintPowBig
  rw [pow_big_spec]
  by_cases h : 2 ≤ x.natAbs ∧ 2 ^ 128 ≤ e
  · rw [if_pos h, if_pos h]
  · rw [if_neg h, if_neg h]
    simp only [fromBiguint_powsign]

/-- sign rule: the power is negative exactly when the base is negative and the exponent odd -/
theorem bigint_pow_sign (x : Int) (e : Nat) : x ^ e < 0 ↔ x < 0 ∧ e % 2 = 1 := by
  constructor
  · intro h
    by_cases hx : x < 0
    · refine ⟨hx, ?_⟩
      by_contra ho
      have := Even.pow_nonneg (Nat.even_iff.mpr (by omega : e % 2 = 0)) x
      omega
    · have := pow_nonneg (show 0 ≤ x by omega) e
      omega
  · rintro ⟨hx, ho⟩
    exact Odd.pow_neg (Nat.odd_iff.mpr ho) hx

/-- `powsign` as a table -/
theorem powsign_spec (s : Sign) (e : Nat) :
    powsign s e = if e = 0 then .plus else if s = .minus ∧ e % 2 = 0 then .plus else s := by
  unfold powsign
  by_cases he : e = 0
  · simp [he]
  · cases s <;> by_cases ho : e % 2 = 1 <;> simp [he, ho, Sign.neg] <;> omega

/-! ### non-vacuity / concrete evaluations of the model -/

example : powVV 3 13 = .ok 1594323 := by decide
example : powVV 2 64 = .ok 18446744073709551616 := by decide
example : powVV 0 0 = .ok 1 := by decide
example : bigintPow .rv (-3) 5 = .ok (-243) := by decide
example : bigintPowBig .vv (-1) (2 ^ 128 + 1) = .ok (-1) := by
  rw [bigint_pow_big_spec, if_neg (by decide), Odd.neg_one_pow ⟨2 ^ 127, by norm_num⟩]
example : powBig .rr 2 (2 ^ 128) = .error .capacity := by rw [pow_big_spec]; simp

end NB
