/-
  NB.Spec.Rand — the mathematical statement of C18 over a WORD TAPE (import-free, executable;
  the driver prints these as the oracle column, the theorems of NB.Props.C18 say the model of
  src/bigrand.rs computes exactly these).

  The RNG is the list of the u32 words it will return from `next_u32`, in order.
  Facts about rand 0.8.8 / rand_core 0.6.4 that this encoding relies on (read from the pinned
  sources, exercised by the correspondence run, not proved):
    * `Rng::fill(&mut [u32])` = `try_fill_bytes` on the 4·k bytes of the slice followed by
      `to_le` on every element (rand-0.8.8/src/rng.rs, `impl_fill!`), nothing at all for k = 0;
      for an RNG whose `fill_bytes` is `impls::fill_bytes_via_next` and whose `next_u64` is
      `impls::next_u64_via_u32` (low word first) this stores the next k words of the `next_u32`
      stream, in order, into the k elements (little-endian target);
    * `Rng::gen::<bool>()` = `(rng.next_u32() as i32) < 0`: one word, its top bit
      (rand-0.8.8/src/distributions/other.rs).
-/
namespace NB.Rand

/-- 2^32: one tape word -/
def WB : Nat := 4294967296
/-- bits of one tape word (`u32`) -/
def WBITS : Nat := 32

theorem WB_eq : WB = 2 ^ WBITS := by decide

/-- every tape element is a u32 -/
def WordsOk (t : List Nat) : Prop := ∀ w ∈ t, w < WB
instance (t : List Nat) : Decidable (WordsOk t) := by unfold WordsOk; infer_instance

/-- value of little-endian base-2^32 digits -/
def wordsVal : List Nat → Nat
  | [] => 0
  | w :: ws => w + WB * wordsVal ws

/-- ⌈n/32⌉: words consumed by one `gen_biguint(n)` -/
def specLen (n : Nat) : Nat := n / WBITS + (if n % WBITS > 0 then 1 else 0)

/-- the candidate encoded by exactly `specLen n` words: little-endian base-2^32 digits, the
    top word shifted right by `32 − n % 32` when `n % 32 ≠ 0` -/
def cand (n : Nat) (ws : List Nat) : Nat :=
  if n % WBITS = 0 then wordsVal ws
  else wordsVal (ws.take (specLen n - 1))
        + WB ^ (specLen n - 1) * (ws.getD (specLen n - 1) 0 / 2 ^ (WBITS - n % WBITS))

/-- the low bits of the top word that `gen_biguint(n)` throws away -/
def discarded (n : Nat) (ws : List Nat) : Nat :=
  if n % WBITS = 0 then 0 else ws.getD (specLen n - 1) 0 % 2 ^ (WBITS - n % WBITS)

/-- explicit inverse of `ws ↦ (cand n ws, discarded n ws)`: the word list encoding value `v`
    and discarded bits `d` -/
def wordsOf : Nat → Nat → List Nat
  | 0, _ => []
  | k + 1, x => (x % WB) :: wordsOf k (x / WB)

def encode (n v d : Nat) : List Nat :=
  if n % WBITS = 0 then wordsOf (specLen n) v
  else wordsOf (specLen n - 1) (v % WB ^ (specLen n - 1))
        ++ [(v / WB ^ (specLen n - 1)) * 2 ^ (WBITS - n % WBITS) + d]

/-- `gen_biguint(n)` on a tape: value and remaining tape, `none` when the tape is too short -/
def genSpec (n : Nat) (tape : List Nat) : Option (Nat × List Nat) :=
  if tape.length < specLen n then none
  else some (cand n (tape.take (specLen n)), tape.drop (specLen n))

/-- `k`-th complete chunk of `len` words -/
def chunk (len k : Nat) (tape : List Nat) : List Nat := (tape.drop (k * len)).take len

/-- rejection sampling: the first `n`-bit candidate on the tape that is `< bound`
    (`fuel` bounds the number of candidates examined; `tape.length + 1` is always enough) -/
def belowSpecLoop (n bound : Nat) : Nat → List Nat → Option (Nat × List Nat)
  | 0, _ => none
  | f + 1, tape =>
    if tape.length < specLen n then none
    else
      let c := cand n (tape.take (specLen n))
      if c < bound then some (c, tape.drop (specLen n))
      else belowSpecLoop n bound f (tape.drop (specLen n))

/-- number of bits of a natural number (`BigUint::bits`) -/
def natBits (v : Nat) : Nat := if v = 0 then 0 else Nat.log2 v + 1

def belowSpec (bound : Nat) (tape : List Nat) : Option (Nat × List Nat) :=
  belowSpecLoop (natBits bound) bound (tape.length + 1) tape

/-- `gen::<bool>()` -/
def boolSpec : List Nat → Option (Bool × List Nat)
  | [] => none
  | w :: rest => some (decide (WB / 2 ≤ w), rest)

/-- `gen_bigint(n)`: candidate, then one word whose top bit is the sign (Plus when set) or, for
    a zero candidate, "draw again" -/
def bigintSpecLoop (n : Nat) : Nat → List Nat → Option (Int × List Nat)
  | 0, _ => none
  | f + 1, tape =>
    match genSpec n tape with
    | none => none
    | some (c, t1) =>
      match boolSpec t1 with
      | none => none
      | some (b, t2) =>
        if c = 0 then (if b then bigintSpecLoop n f t2 else some (0, t2))
        else some (if b then (c : Int) else -(c : Int), t2)

def bigintSpec (n : Nat) (tape : List Nat) : Option (Int × List Nat) :=
  bigintSpecLoop n (tape.length + 1) tape

/-- `gen_bigint(n)` reads the tape in blocks of `specLen n + 1` words: candidate of block `k` … -/
def blockCand (n k : Nat) (tape : List Nat) : Nat :=
  cand n ((tape.drop (k * (specLen n + 1))).take (specLen n))

/-- … and the top bit of its last word (the `gen::<bool>()` draw) -/
def blockSign (n k : Nat) (tape : List Nat) : Bool :=
  decide (WB / 2 ≤ (tape.drop (k * (specLen n + 1) + specLen n)).headD 0)

/-- the value block `k` stands for when it is accepted -/
def blockVal (n k : Nat) (tape : List Nat) : Int :=
  if blockCand n k tape = 0 then 0
  else if blockSign n k tape then (blockCand n k tape : Int) else -(blockCand n k tape : Int)

end NB.Rand
