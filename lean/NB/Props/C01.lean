/-
  C01 — Addition and subtraction are exact for every operand length and carry pattern.

  Every theorem states that the *model of the code path* (NB.Model.AddSub, written from
  src/biguint/{addition,subtraction}.rs and src/bigint/{addition,subtraction}.rs, and
  correspondence-checked against the real crate on every run) returns exactly the canonical
  representation of the mathematical result, for all canonical operands of any length, any
  digit content and — for BigInt — all sign combinations; and that BigUint subtraction
  panics exactly when a < b.
-/
import NB.Lemmas.AddSub
import NB.Lemmas.Canon
import NB.Model.AsmParams
namespace NB

/-- well-formedness of the extracted constants that C01 relies on: both asm loops stay within
    `len` digits (`w * (len / d) ≤ len`). -/
def Params.ValidAddSub (P : Params) : Prop := P.addBlk.Valid ∧ P.subBlk.Valid
instance (P : Params) : Decidable P.ValidAddSub := by unfold Params.ValidAddSub; infer_instance

/-- proof obligation over the generated parameters (re-elaborated on every run) -/
theorem gen_params_valid_addsub : NB.Gen.P.ValidAddSub := by decide

/-- the asm routine never claims more digits than it was given -/
theorem blk_done_le (p : Blk) (h : p.Valid) (len : Nat) : p.done len ≤ len := by
  unfold Blk.done
  calc p.w * (len / p.d) ≤ p.d * (len / p.d) := Nat.mul_le_mul_right _ h.2
    _ ≤ len := Nat.mul_div_le len p.d

/-- `a += &b`: exact sum, canonical result, for both length orders -/
theorem addAssign_spec (P : Params) (a b : List Nat) (ha : Canon a) (hb : Canon b) :
    addAssign P a b = ofNat (val a + val b) := by
  have key : val (addAssign P a b) = val a + val b ∧ Canon (addAssign P a b) := by
    unfold addAssign
    by_cases hlt : a.length < b.length
    · simp only [hlt, if_true]
      -- low part, then the tail of b plus the low carry
      have hl1 : (b.take a.length).length ≤ a.length := by rw [List.length_take]; omega
      have hbt : (b.take a.length).length = a.length := by rw [List.length_take]; omega
      obtain ⟨l1, l2, l3, l4⟩ := add2c_spec P a (b.take a.length) hl1 ha.1 (hb.1.take _)
      have hdl : (b.drop a.length).length = b.length - a.length := by simp
      have hc1 : DigitsOk [(add2c P a (b.take a.length)).2] :=
        DigitsOk.cons (by have := l4; unfold B; omega) DigitsOk.nil
      obtain ⟨h1, h2, h3, h4⟩ := add2c_spec P (b.drop a.length) [(add2c P a (b.take a.length)).2]
        (by simp [hdl]; omega) (hb.1.drop _) hc1
      have hvb : val b = val (b.take a.length) + B ^ a.length * val (b.drop a.length) := by
        conv_lhs => rw [← List.take_append_drop a.length b]
        rw [val_append, hbt]
      generalize add2c P (b.drop a.length) [(add2c P a (b.take a.length)).2] = hi at *
      generalize add2c P a (b.take a.length) = lo at *
      simp only [val, Nat.mul_zero, Nat.add_zero] at h1
      have hsum : val (lo.1 ++ hi.1) + B ^ b.length * hi.2 = val a + val b := by
        rw [val_append, l2, hvb]
        have e : b.length = a.length + (b.drop a.length).length := by rw [hdl]; omega
        rw [e, pow_add]
        have := congrArg (B ^ a.length * ·) h1
        simp only [Nat.mul_add] at this
        have e2 : B ^ a.length * B ^ (b.drop a.length).length * hi.2
                = B ^ a.length * (B ^ (b.drop a.length).length * hi.2) := by ring
        rw [e2]; omega
      have hlen : (lo.1 ++ hi.1).length = b.length := by
        simp only [List.length_append, l2, h2, hdl]; omega
      have hok : DigitsOk (lo.1 ++ hi.1) := l3.append h3
      by_cases hc : hi.2 = 0
      · simp only [hc, ne_eq, not_true_eq_false, if_false]
        rw [hc] at hsum
        refine ⟨by omega, canon_of_val_ge hok ?_⟩
        intro _
        rw [hlen]
        have hbne : b ≠ [] := by intro h; subst h; simp at hlt
        have := canon_val_ge hb hbne
        omega
      · have hc1' : hi.2 = 1 := by omega
        simp only [hc, ne_eq, not_false_eq_true, if_true]
        refine ⟨?_, canon_append_singleton hok (by rw [hc1']; decide) hc⟩
        rw [val_append, hlen]; simp only [val, Nat.mul_zero, Nat.add_zero]; omega
    · simp only [hlt, if_false]
      obtain ⟨l1, l2, l3, l4⟩ := add2c_spec P a b (by omega) ha.1 hb.1
      generalize add2c P a b = r at *
      by_cases hc : r.2 = 0
      · simp only [hc, ne_eq, not_true_eq_false, if_false]
        rw [hc] at l1
        refine ⟨by omega, canon_of_val_ge l3 ?_⟩
        intro hne
        rw [l2]
        have hane : a ≠ [] := by intro h; subst h; simp at l2; exact hne l2
        have := canon_val_ge ha hane
        omega
      · have hc1' : r.2 = 1 := by omega
        simp only [hc, ne_eq, not_false_eq_true, if_true]
        refine ⟨?_, canon_append_singleton l3 (by rw [hc1']; decide) hc⟩
        rw [val_append, l2]; simp only [val, Nat.mul_zero, Nat.add_zero]; omega
  rw [canon_eq_ofNat key.2, key.1]

/-- `&a + &b` (clone of the longer operand, then `+=`): exact canonical sum -/
theorem addRef_spec (P : Params) (a b : List Nat) (ha : Canon a) (hb : Canon b) :
    addRef P a b = ofNat (val a + val b) := by
  unfold addRef
  split
  · exact addAssign_spec P a b ha hb
  · rw [addAssign_spec P b a hb ha, Nat.add_comm]

/-- `a -= &b` / `&a - &b`: panics exactly when a < b, otherwise the exact canonical difference -/
theorem subAssign_spec (P : Params) (a b : List Nat) (ha : Canon a) (hb : Canon b) :
    subAssign P a b = if val a < val b then .error .underflow else .ok (ofNat (val a - val b)) := by
  obtain ⟨h1, h2⟩ := sub2_spec P a b ha.1 hb.1
  unfold subAssign
  by_cases hlt : val a < val b
  · simp only [hlt, if_true, h1 hlt]; rfl
  · simp only [hlt, if_false]
    obtain ⟨r, hr, hv, _, hok⟩ := h2 (by omega)
    rw [hr]
    show Except.ok (normalize r) = _
    rw [canon_eq_ofNat (normalize_canon hok), normalize_val, hv]

theorem subRef_spec (P : Params) (a b : List Nat) (ha : Canon a) (hb : Canon b) :
    subRef P a b = if val a < val b then .error .underflow else .ok (ofNat (val a - val b)) :=
  subAssign_spec P a b ha hb

/-- `checked_sub` returns `None` exactly when a < b and never panics -/
theorem checkedSub_spec (P : Params) (a b : List Nat) (ha : Canon a) (hb : Canon b) :
    checkedSub P a b = .ok (if val a < val b then none else some (ofNat (val a - val b))) := by
  unfold checkedSub
  rw [cmpSlice_spec ha hb]
  rcases Nat.lt_trichotomy (val a) (val b) with h | h | h
  · rw [Nat.compare_eq_lt.mpr h]; simp [h]
  · rw [Nat.compare_eq_eq.mpr h]; simp [h]; unfold ofNat; simp
  · rw [Nat.compare_eq_gt.mpr h]
    have : ¬ val a < val b := by omega
    simp only [this, if_false, subRef_spec P a b ha hb]; rfl

theorem sub2rev_arith {P va vbl vbh zl c2 : Nat} (hP : 0 < P)
    (hz : zl + vbl = va + P * c2) (hzl : zl < P) (hva : va < P) (hvbl : vbl < P) (hc2 : c2 ≤ 1) :
    ((va < vbl + P * vbh) → ¬ (c2 = 0 ∧ vbh = 0)) ∧
    ((vbl + P * vbh ≤ va) → c2 = 0 ∧ vbh = 0 ∧ zl = va - (vbl + P * vbh)) := by
  constructor
  · rintro hlt ⟨h0, h1⟩
    subst h0 h1; simp at hz hlt; omega
  · intro hle
    have hvbh : vbh = 0 := by
      by_contra hne
      have : P * 1 ≤ P * vbh := Nat.mul_le_mul_left _ (Nat.pos_of_ne_zero hne)
      omega
    subst hvbh
    have hc : c2 = 0 := by
      by_contra hne
      have : c2 = 1 := by omega
      subst this; simp at hz hle; omega
    subst hc
    simp at hz hle ⊢; omega

/-- `sub2rev(a, b)` with `a.len() ≤ b.len()`: b := a - b -/
theorem sub2rev_spec (a b : List Nat) (hl : a.length ≤ b.length) (ha : DigitsOk a) (hb : DigitsOk b) :
    (val a < val b → sub2rev a b = .error .underflow) ∧
    (val b ≤ val a → ∃ r, sub2rev a b = .ok r ∧ val r = val a - val b ∧ DigitsOk r) := by
  unfold sub2rev sub2revc
  dsimp only
  have hmin : min a.length b.length = a.length := Nat.min_eq_left hl
  rw [hmin]
  have hta : a.take a.length = a := List.take_length
  have hda : a.drop a.length = [] := List.drop_length
  rw [hta, hda]
  have hLb : (b.take a.length).length = a.length := by rw [List.length_take]; omega
  obtain ⟨z1, z2, z3, z4⟩ := sbbZip_spec a (b.take a.length) 0 hLb.symm ha (hb.take _) (by omega)
  have hvb : val b = val (b.take a.length) + B ^ a.length * val (b.drop a.length) := by
    conv_lhs => rw [← List.take_append_drop a.length b]
    rw [val_append, hLb]
  have hz : ((b.drop a.length).all (· == 0)) = true ↔ val (b.drop a.length) = 0 := all_zero_val
  have hzl := val_lt z3
  rw [z2] at hzl
  have hval := val_lt ha
  have hbl := val_lt (hb.take a.length)
  rw [hLb] at hbl
  generalize sbbZip 0 a (b.take a.length) = z at *
  obtain ⟨k1, k2⟩ := sub2rev_arith (vbh := val (b.drop a.length)) (Nat.pow_pos B_pos : 0 < B ^ a.length)
    (by simpa using z1) hzl hval hbl z4
  simp only [ne_eq, not_true_eq_false, if_false]
  rw [hvb]
  constructor
  · intro hlt
    have := k1 hlt
    rw [← hz] at this
    simp only [this, if_false]
  · intro hle
    obtain ⟨h0, hbh, hv⟩ := k2 hle
    have hz' := hz.mpr hbh
    refine ⟨z.1 ++ b.drop a.length, by simp only [h0, hz', and_self, if_true], ?_, z3.append (hb.drop _)⟩
    rw [val_append, z2, hv, hbh]; simp

/-- `&a - b` (by value, reusing b's buffer): same outcome as every other form -/
theorem subRefVal_spec (P : Params) (a b : List Nat) (ha : Canon a) (hb : Canon b) :
    subRefVal P a b = if val a < val b then .error .underflow else .ok (ofNat (val a - val b)) := by
  unfold subRefVal
  by_cases hlen : b.length < a.length
  · simp only [hlen, if_true]
    -- a is longer, hence a > b; the low borrow is absorbed by the non-zero high part
    have hLa : (a.take b.length).length = b.length := by simp [List.length_take]; omega
    unfold sub2revc
    obtain ⟨z1, z2, z3, z4⟩ := sbbZip_spec (a.take b.length) b 0 hLa (ha.1.take _) hb.1 (by omega)
    have hva : val a = val (a.take b.length) + B ^ b.length * val (a.drop b.length) := by
      conv_lhs => rw [← List.take_append_drop b.length a]
      rw [val_append, hLa]
    have hhiC : Canon (a.drop b.length) := by
      refine ⟨ha.1.drop _, ?_⟩
      have hne : a.drop b.length ≠ [] := by
        intro h; have := congrArg List.length h; simp at this; omega
      rw [List.getLast?_drop]
      have : ¬ a.length ≤ b.length := by omega
      simp only [this, if_false]; exact ha.2
    have hhine : a.drop b.length ≠ [] := by
      intro h; have := congrArg List.length h; simp at this; omega
    have hhipos := canon_val_pos hhiC hhine
    have hblt := val_lt hb.1
    have hzl := val_lt z3
    rw [z2, hLa] at hzl
    rw [hLa] at z1
    have hBp : 0 < B ^ b.length := Nat.pow_pos B_pos
    have hgt : ¬ val a < val b := by
      rw [hva]
      have : B ^ b.length * 1 ≤ B ^ b.length * val (a.drop b.length) := Nat.mul_le_mul_left _ hhipos
      omega
    simp only [hgt, if_false]
    obtain ⟨_, s2⟩ := sub2_spec P (a.drop b.length) [1] (ha.1.drop _) (DigitsOk.cons (by decide) DigitsOk.nil)
    have hone : val [1] = 1 := by simp [val]
    rw [hone] at s2
    obtain ⟨hi, hhi, hhv, _, hhok⟩ := s2 hhipos
    generalize sbbZip 0 (a.take b.length) b = z at *
    by_cases hbz : z.2 = 0
    · simp only [hbz, ne_eq, not_true_eq_false, if_false]
      have hok : DigitsOk (z.1 ++ a.drop b.length) := z3.append (ha.1.drop _)
      rw [canon_eq_ofNat (normalize_canon hok), normalize_val, val_append, z2, hLa, hva]
      rw [hbz] at z1
      congr 2; omega
    · have hb1 : z.2 = 1 := by omega
      simp only [hbz, ne_eq, not_false_eq_true, if_true, hhi]
      show Except.ok (normalize (z.1 ++ hi)) = _
      have hok : DigitsOk (z.1 ++ hi) := z3.append hhok
      rw [canon_eq_ofNat (normalize_canon hok), normalize_val, val_append, z2, hLa, hva, hhv]
      rw [hb1] at z1
      congr 2
      have : B ^ b.length * (val (a.drop b.length) - 1) = B ^ b.length * val (a.drop b.length) - B ^ b.length := by
        rw [Nat.mul_sub, Nat.mul_one]
      have : B ^ b.length * 1 ≤ B ^ b.length * val (a.drop b.length) := Nat.mul_le_mul_left _ hhipos
      omega
  · simp only [hlen, if_false]
    obtain ⟨h1, h2⟩ := sub2rev_spec a b (by omega) ha.1 hb.1
    by_cases hlt : val a < val b
    · simp only [hlt, if_true, h1 hlt]; rfl
    · simp only [hlt, if_false]
      obtain ⟨r, hr, hv, hok⟩ := h2 (by omega)
      rw [hr]
      show Except.ok (normalize r) = _
      rw [canon_eq_ofNat (normalize_canon hok), normalize_val, hv]

/-- `sub2rev`'s assertion `a_hi.is_empty()` is unreachable from `&a - b` -/
theorem sub2rev_no_internal (a b : List Nat) (hl : a.length ≤ b.length) :
    sub2rev a b ≠ .error (.internal "sub2rev a_hi") := by
  unfold sub2rev
  have : a.drop (min a.length b.length) = [] := by simp [Nat.min_eq_left hl]
  simp only [this, ne_eq, not_true_eq_false, if_false]
  split <;> simp

theorem ok_from_plus {m : List Nat} {i : Int} (h : Canon m) (hi : (val m : Int) = i) :
    (Except.ok (BigInt.fromBiguint .plus m) : Except Panic BigInt) = .ok (BigInt.ofInt i) := by
  rw [fromBiguint_plus h, hi]

theorem ok_from_minus {m : List Nat} {i : Int} (h : Canon m) (hi : -(val m : Int) = i) :
    (Except.ok (BigInt.fromBiguint .minus m) : Except Panic BigInt) = .ok (BigInt.ofInt i) := by
  rw [fromBiguint_minus h, hi]

/-- the magnitude-difference arm: exact signed difference, canonical, never panics -/
theorem subMag_spec (P : Params) (ma mb : List Nat) (hca : Canon ma) (hcb : Canon mb) :
    BigInt.subMag P .plus ma mb = .ok (BigInt.ofInt ((val ma : Int) - val mb)) ∧
    BigInt.subMag P .minus ma mb = .ok (BigInt.ofInt ((val mb : Int) - val ma)) := by
  unfold BigInt.subMag
  rw [cmpSlice_spec hca hcb]
  have hs1 := subRef_spec P ma mb hca hcb
  have hs2 := subRef_spec P mb ma hcb hca
  rcases Nat.lt_trichotomy (val ma) (val mb) with h | h | h
  · rw [Nat.compare_eq_lt.mpr h]
    have : ¬ val mb < val ma := by omega
    simp only [hs2, this, if_false, Sign.neg]
    constructor
    · exact ok_from_minus (ofNat_canon _) (by rw [ofNat_val]; omega)
    · exact ok_from_plus (ofNat_canon _) (by rw [ofNat_val]; omega)
  · rw [Nat.compare_eq_eq.mpr h]
    simp [h, BigInt.ofInt]
  · rw [Nat.compare_eq_gt.mpr h]
    have : ¬ val ma < val mb := by omega
    simp only [hs1, this, if_false]
    constructor
    · exact ok_from_plus (ofNat_canon _) (by rw [ofNat_val]; omega)
    · exact ok_from_minus (ofNat_canon _) (by rw [ofNat_val]; omega)

/-- BigInt addition: exact for all nine sign pairs, result canonical, never panics -/
theorem bigint_add_spec (P : Params) (a b : BigInt) (ha : a.Canon) (hb : b.Canon) :
    BigInt.add P a b = .ok (BigInt.ofInt (a.val + b.val)) := by
  obtain ⟨sa, ma⟩ := a
  obtain ⟨sb, mb⟩ := b
  have hA := bigint_canon_eq_ofInt ha
  have hB := bigint_canon_eq_ofInt hb
  obtain ⟨hca, hsa⟩ := ha
  obtain ⟨hcb, hsb⟩ := hb
  simp only at hca hsa hcb hsb
  have hsumC := ofNat_canon (val ma + val mb)
  obtain ⟨hdp, hdm⟩ := subMag_spec P ma mb hca hcb
  cases sa <;> cases sb <;> simp only [BigInt.add, BigInt.val, addRef_spec P ma mb hca hcb, Int.add_zero, Int.zero_add] at *
  · exact ok_from_minus hsumC (by rw [ofNat_val]; omega)
  · exact congrArg _ hA
  · rw [hdm]; congr 2; omega
  · exact congrArg _ hB
  · exact congrArg _ hA
  · exact congrArg _ hB
  · rw [hdp]; congr 2
  · exact congrArg _ hA
  · exact ok_from_plus hsumC (by rw [ofNat_val]; omega)

/-- BigInt subtraction: exact for all nine sign pairs, result canonical, never panics -/
theorem bigint_sub_spec (P : Params) (a b : BigInt) (ha : a.Canon) (hb : b.Canon) :
    BigInt.sub P a b = .ok (BigInt.ofInt (a.val - b.val)) := by
  obtain ⟨sa, ma⟩ := a
  obtain ⟨sb, mb⟩ := b
  have hA := bigint_canon_eq_ofInt ha
  have hB := bigint_canon_eq_ofInt hb
  have hNB : (BigInt.neg ⟨sb, mb⟩) = BigInt.ofInt (-(BigInt.val ⟨sb, mb⟩)) := by
    have hc : (BigInt.neg ⟨sb, mb⟩).Canon := by
      obtain ⟨h1, h2⟩ := hb
      refine ⟨h1, ?_⟩
      cases sb <;> simpa [BigInt.neg, Sign.neg] using h2
    have := bigint_canon_eq_ofInt hc
    rw [this]; congr 1
    cases sb <;> simp [BigInt.neg, Sign.neg, BigInt.val]
  obtain ⟨hca, hsa⟩ := ha
  obtain ⟨hcb, hsb⟩ := hb
  simp only at hca hsa hcb hsb
  have hsumC := ofNat_canon (val ma + val mb)
  obtain ⟨hdp, hdm⟩ := subMag_spec P ma mb hca hcb
  cases sa <;> cases sb <;> simp only [BigInt.sub, BigInt.val, addRef_spec P ma mb hca hcb, Int.sub_zero, Int.zero_sub] at *
  · rw [hdm]; congr 2; omega
  · exact congrArg _ hA
  · exact ok_from_minus hsumC (by rw [ofNat_val]; omega)
  · exact congrArg _ hNB
  · exact congrArg _ hA
  · exact congrArg _ hNB
  · exact ok_from_plus hsumC (by rw [ofNat_val]; omega)
  · exact congrArg _ hA
  · rw [hdp]

/- non-vacuity: concrete canonical operands exercising carry chains across a block boundary -/
example : Canon [B - 1, B - 1, B - 1, B - 1, B - 1, B - 1] ∧ Canon [1] := by decide
example : addAssign NB.Gen.P [B - 1, B - 1, B - 1, B - 1, B - 1, B - 1] [1] = [0, 0, 0, 0, 0, 0, 1] := by decide
example : subAssign NB.Gen.P [0, 0, 0, 0, 0, 0, 1] [1] = .ok [B - 1, B - 1, B - 1, B - 1, B - 1, B - 1] := by decide
example : subAssign NB.Gen.P [5] [0, 1] = .error .underflow := by decide

end NB
