/- helper lemmas for the multiplication model: slices, `mac_digit`, the schoolbook loop,
   `sub_sign`, `scalar_mul` -/
import NB.Lemmas.AddSub
import NB.Lemmas.Canon
import NB.Model.Mul
namespace NB.Mul

/-! ### small utilities -/

theorem mx_ok_bind {ε α β : Type} (a : α) (f : α → Except ε β) : (Except.ok a >>= f) = f a := rfl

theorem lenGe_iff : ∀ (l : List Nat) (n : Nat), lenGe l n = true ↔ n ≤ l.length := by
  intro l
  induction l with
  | nil => intro n; cases n <;> simp [lenGe]
  | cons a t ih => intro n; cases n with
    | zero => simp [lenGe]
    | succ m => simp [lenGe, ih m]

theorem mx_val_replicate_zero (n : Nat) : val (List.replicate n 0) = 0 := by
  induction n with
  | zero => rfl
  | succ k ih => simp [List.replicate_succ, val, ih]

theorem mx_digitsOk_replicate_zero (n : Nat) : DigitsOk (List.replicate n 0) := by
  intro d hd
  have := List.eq_of_mem_replicate hd
  subst this; exact B_pos

theorem mx_val_split (n : Nat) (a : List Nat) (h : n ≤ a.length) :
    val a = val (a.take n) + B ^ n * val (a.drop n) := by
  conv_lhs => rw [← List.take_append_drop n a]
  rw [val_append, List.length_take, Nat.min_eq_left h]

theorem mx_one_lt_B : 1 < B := by decide

theorem mx_pow_le_pow_B {m n : Nat} (h : m ≤ n) : B ^ m ≤ B ^ n := Nat.pow_le_pow_right B_pos h

/-- a canonical list is no longer than any power bound on its value -/
theorem mx_canon_length_le {a : List Nat} (h : Canon a) {k : Nat} (hv : val a < B ^ k) : a.length ≤ k := by
  by_cases hne : a = []
  · subst hne; simp
  · have h1 := canon_val_ge h hne
    have h2 : B ^ (a.length - 1) < B ^ k := Nat.lt_of_le_of_lt h1 hv
    have := (Nat.pow_lt_pow_iff_right mx_one_lt_B).mp h2
    omega

theorem mx_ofNat_length_le {n k : Nat} (h : n < B ^ k) : (ofNat n).length ≤ k :=
  mx_canon_length_le (ofNat_canon n) (by rw [ofNat_val]; exact h)

theorem mx_normalize_length_le {a : List Nat} (h : DigitsOk a) {k : Nat} (hv : val a < B ^ k) :
    (normalize a).length ≤ k :=
  mx_canon_length_le (normalize_canon h) (by rw [normalize_val]; exact hv)

/-- `P * h ≤ lo + P * h < P * Q` gives `h < Q` -/
theorem mx_lt_of_mul_add_lt {lo P h Q : Nat} (hlt : lo + P * h < P * Q) : h < Q := by
  by_contra hge
  have : P * Q ≤ P * h := Nat.mul_le_mul_left _ (by omega)
  omega

theorem mx_pow_split {n off : Nat} (h : off ≤ n) : B ^ n = B ^ off * B ^ (n - off) := by
  rw [← pow_add]; congr 1; omega

theorem mx_ofNat_zero : ofNat 0 = [] := by unfold ofNat; simp

theorem mx_ofNat_ne_nil {n : Nat} (h : 0 < n) : ofNat n ≠ [] := by
  intro he
  have := congrArg val he
  rw [ofNat_val] at this
  simp [val] at this
  omega

/-! ### `f(&mut acc[off..])` -/

theorem onSuffix_ok {off : Nat} {acc t : List Nat} {f : List Nat → Except Panic (List Nat)}
    (h : off ≤ acc.length) (hf : f (acc.drop off) = .ok t) :
    onSuffix off acc f = .ok (acc.take off ++ t) := by
  unfold onSuffix
  rw [(lenGe_iff acc off).mpr h]
  simp only [if_true, hf]

/-- value / length / digit bookkeeping for a result written back into a suffix -/
theorem mx_suffix_result {off : Nat} {acc t : List Nat} (h : off ≤ acc.length) (hacc : DigitsOk acc)
    (ht : DigitsOk t) (hl : t.length = (acc.drop off).length) {v : Nat}
    (hv : val t = val (acc.drop off) + v) :
    val (acc.take off ++ t) = val acc + B ^ off * v ∧ (acc.take off ++ t).length = acc.length ∧
    DigitsOk (acc.take off ++ t) := by
  refine ⟨?_, ?_, (hacc.take _).append ht⟩
  · rw [val_append, List.length_take, Nat.min_eq_left h, hv, mx_val_split off acc h]; ring
  · rw [List.length_append, hl, List.length_take, List.length_drop]; omega

theorem add2g_spec (P : Params) (a d : List Nat) (ha : DigitsOk a) (hd : DigitsOk d)
    (hl : d.length ≤ a.length) (hv : val a + val d < B ^ a.length) :
    ∃ r, add2g P a d = .ok r ∧ val r = val a + val d ∧ r.length = a.length ∧ DigitsOk r := by
  obtain ⟨s1, s2, s3, s4⟩ := add2c_spec P a d hl ha hd
  have hc : (add2c P a d).2 = 0 := by
    by_contra hne
    have : B ^ a.length * 1 ≤ B ^ a.length * (add2c P a d).2 := Nat.mul_le_mul_left _ (by omega)
    omega
  refine ⟨(add2c P a d).1, ?_, ?_, s2, s3⟩
  · unfold add2g add2
    rw [(lenGe_iff a d.length).mpr hl]
    simp only [if_true, hc]
  · rw [hc] at s1; omega

/-- `add2(&mut acc[off..], d)` -/
theorem addAt_spec (P : Params) (off : Nat) (acc d : List Nat) (ha : DigitsOk acc) (hd : DigitsOk d)
    (hl : off + d.length ≤ acc.length) (hv : val acc + B ^ off * val d < B ^ acc.length) :
    ∃ r, onSuffix off acc (fun t => add2g P t d) = .ok r ∧ val r = val acc + B ^ off * val d ∧
      r.length = acc.length ∧ DigitsOk r := by
  have hoff : off ≤ acc.length := by omega
  have hsp := mx_val_split off acc hoff
  have hdl : (acc.drop off).length = acc.length - off := List.length_drop
  have hv' : val (acc.drop off) + val d < B ^ (acc.drop off).length := by
    rw [hdl]
    apply mx_lt_of_mul_add_lt (lo := val (acc.take off)) (P := B ^ off)
    rw [← mx_pow_split hoff, Nat.mul_add]; omega
  obtain ⟨t, h1, h2, h3, h4⟩ := add2g_spec P (acc.drop off) d (ha.drop _) hd (by omega) hv'
  obtain ⟨r1, r2, r3⟩ := mx_suffix_result hoff ha h4 h3 h2
  exact ⟨_, onSuffix_ok hoff h1, r1, r2, r3⟩

/-- `sub2(&mut acc[off..], d)` -/
theorem subAt_spec (P : Params) (off : Nat) (acc d : List Nat) (ha : DigitsOk acc) (hd : DigitsOk d)
    (hoff : off ≤ acc.length) (hv : B ^ off * val d ≤ val acc) :
    ∃ r, onSuffix off acc (fun t => sub2 P t d) = .ok r ∧ val r + B ^ off * val d = val acc ∧
      r.length = acc.length ∧ DigitsOk r := by
  have hsp := mx_val_split off acc hoff
  have hlo : val (acc.take off) < B ^ off := by
    have := val_lt (ha.take off)
    rwa [List.length_take, Nat.min_eq_left hoff] at this
  have hle : val d ≤ val (acc.drop off) := by
    by_contra hgt
    have : B ^ off * (val (acc.drop off) + 1) ≤ B ^ off * val d := Nat.mul_le_mul_left _ (by omega)
    rw [Nat.mul_add] at this
    omega
  obtain ⟨t, h1, h2, h3, h4⟩ := (sub2_spec P (acc.drop off) d (ha.drop _) hd).2 hle
  refine ⟨_, onSuffix_ok hoff h1, ?_, ?_, (ha.take _).append h4⟩
  · rw [val_append, List.length_take, Nat.min_eq_left hoff, h2, hsp]
    have : B ^ off * (val (acc.drop off) - val d) + B ^ off * val d = B ^ off * val (acc.drop off) := by
      rw [← Nat.mul_add]; congr 1; omega
    omega
  · rw [List.length_append, h3, List.length_take, List.length_drop]; omega

/-! ### `mac_digit` -/

theorem macZip_spec (c : Nat) (hc : c < B) : ∀ (a b : List Nat) (carry : Nat), a.length = b.length →
    DigitsOk a → DigitsOk b → carry < B →
    val (macZip c carry a b).1 + B ^ a.length * (macZip c carry a b).2 = val a + val b * c + carry ∧
    (macZip c carry a b).1.length = a.length ∧ DigitsOk (macZip c carry a b).1 ∧
    (macZip c carry a b).2 < B := by
  intro a
  induction a with
  | nil =>
    intro b carry hl _ _ hcar
    cases b with
    | nil => simp [macZip, val, hcar]; exact DigitsOk.nil
    | cons _ _ => simp at hl
  | cons x xs ih =>
    intro b carry hl ha hb hcar
    cases b with
    | nil => simp at hl
    | cons y ys =>
      have hl' : xs.length = ys.length := by simpa using hl
      have hx := ha.head
      have hy := hb.head
      have hyc : y * c ≤ (B - 1) * (B - 1) := Nat.mul_le_mul (by omega) (by omega)
      have hBB : (B - 1) * (B - 1) + 2 * (B - 1) < B * B := by decide
      have ht : (carry + x + y * c) / B < B := by
        rw [Nat.div_lt_iff_lt_mul B_pos]; omega
      obtain ⟨i1, i2, i3, i4⟩ := ih ys ((carry + x + y * c) / B) hl' ha.tail hb.tail ht
      simp only [macZip, val, List.length_cons, pow_succ]
      refine ⟨?_, by simp [i2], DigitsOk.cons (Nat.mod_lt _ B_pos) i3, i4⟩
      have e : B ^ xs.length * B * (macZip c ((carry + x + y * c) / B) xs ys).2
             = B * (B ^ xs.length * (macZip c ((carry + x + y * c) / B) xs ys).2) := by ring
      rw [e]
      have h1 := congrArg (B * ·) i1
      simp only [Nat.mul_add] at h1
      have h2 := Nat.mod_add_div (carry + x + y * c) B
      have e2 : (y + B * val ys) * c = y * c + B * (val ys * c) := by ring
      rw [e2]
      generalize (carry + x + y * c) % B = lo at *
      generalize (carry + x + y * c) / B = hi at *
      generalize y * c = yc at *
      omega

/-- the u128 accumulator of `mac_with_carry` never overflows: `acc + a + b*c < 2^128` -/
theorem macZip_no_u128_overflow {carry a b c : Nat} (hcar : carry < B) (ha : a < B) (hb : b < B)
    (hc : c < B) : carry + a + b * c < B * B := by
  have hyc : b * c ≤ (B - 1) * (B - 1) := Nat.mul_le_mul (by omega) (by omega)
  have hBB : (B - 1) * (B - 1) + 2 * (B - 1) < B * B := by decide
  omega

/-- `mac_digit`: exact, no carry overflow, provided the row fits below the top of `acc` -/
theorem macDigit_spec (P : Params) (acc b : List Nat) (c : Nat) (ha : DigitsOk acc) (hb : DigitsOk b)
    (hc : c < B) (hl : b.length < acc.length) (hv : val acc + val b * c < B ^ acc.length) :
    ∃ r, macDigit P acc b c = .ok r ∧ val r = val acc + val b * c ∧ r.length = acc.length ∧
      DigitsOk r := by
  unfold macDigit
  by_cases hc0 : c = 0
  · subst hc0; exact ⟨acc, by simp, by simp, rfl, ha⟩
  · simp only [hc0, if_false]
    have hle : b.length ≤ acc.length := by omega
    rw [(lenGe_iff acc b.length).mpr hle]
    simp only [if_true]
    have htl : (acc.take b.length).length = b.length := by rw [List.length_take]; omega
    obtain ⟨z1, z2, z3, z4⟩ := macZip_spec c hc (acc.take b.length) b 0 htl (ha.take _) hb B_pos
    have hhi : (macZip c 0 (acc.take b.length) b).2 / B = 0 := Nat.div_eq_of_lt z4
    have hlo : (macZip c 0 (acc.take b.length) b).2 % B = (macZip c 0 (acc.take b.length) b).2 :=
      Nat.mod_eq_of_lt z4
    simp only [hhi, hlo, if_true, List.length_cons, List.length_nil]
    have hdl : (acc.drop b.length).length = acc.length - b.length := List.length_drop
    have h1 : 0 + 1 ≤ (acc.drop b.length).length := by rw [hdl]; omega
    rw [(lenGe_iff _ _).mpr h1]
    simp only [if_true]
    have hcs : DigitsOk [(macZip c 0 (acc.take b.length) b).2] := DigitsOk.cons z4 DigitsOk.nil
    obtain ⟨s1, s2, s3, s4⟩ := add2c_spec P (acc.drop b.length) [(macZip c 0 (acc.take b.length) b).2]
      (by simpa using h1) (ha.drop _) hcs
    have hsp := mx_val_split b.length acc hle
    rw [htl] at z1 z2
    simp only [val, Nat.mul_zero, Nat.add_zero] at s1
    generalize macZip c 0 (acc.take b.length) b = z at *
    generalize add2c P (acc.drop b.length) [z.2] = s at *
    have htot : val (z.1 ++ s.1) + B ^ acc.length * s.2 = val acc + val b * c := by
      rw [val_append, z2, hsp, mx_pow_split hle, ← hdl]
      have := congrArg (B ^ b.length * ·) s1
      simp only [Nat.mul_add] at this
      have e : B ^ b.length * B ^ (acc.drop b.length).length * s.2
          = B ^ b.length * (B ^ (acc.drop b.length).length * s.2) := by ring
      rw [e]; omega
    have hs0 : s.2 = 0 := by
      by_contra hne
      have : B ^ acc.length * 1 ≤ B ^ acc.length * s.2 := Nat.mul_le_mul_left _ (by omega)
      omega
    refine ⟨z.1 ++ s.1, by simp only [hs0, if_true], ?_, ?_, z3.append s3⟩
    · rw [hs0] at htot; omega
    · rw [List.length_append, z2, s2, hdl]; omega

/-- the `carry_hi != 0` arm of `mac_digit` (which passes the two halves in swapped order) is
    never taken: the loop carry is a single digit -/
theorem macDigit_carryHi_zero (c : Nat) (hc : c < B) (a b : List Nat) (hl : a.length = b.length)
    (ha : DigitsOk a) (hb : DigitsOk b) : (macZip c 0 a b).2 / B = 0 :=
  Nat.div_eq_of_lt (macZip_spec c hc a b 0 hl ha hb B_pos).2.2.2

/-! ### long multiplication -/

theorem school_spec (P : Params) (y : List Nat) (hy : DigitsOk y) : ∀ (x acc : List Nat),
    DigitsOk x → DigitsOk acc → (x ≠ [] → x.length + y.length ≤ acc.length) →
    val acc + val y * val x < B ^ acc.length →
    ∃ r, school P acc y x = .ok r ∧ val r = val acc + val y * val x ∧ r.length = acc.length ∧
      DigitsOk r := by
  intro x
  induction x with
  | nil => intro acc _ ha _ _; exact ⟨acc, rfl, by simp [val], rfl, ha⟩
  | cons xi xs ih =>
    intro acc hx ha hl hv
    have hl' := hl (by simp)
    simp only [List.length_cons] at hl'
    have hvx : val (xi :: xs) = xi + B * val xs := rfl
    rw [hvx] at hv ⊢
    have hexp : val y * (xi + B * val xs) = val y * xi + B * (val y * val xs) := by ring
    rw [hexp] at hv ⊢
    obtain ⟨a1, m1, m2, m3, m4⟩ := macDigit_spec P acc y xi ha hy hx.head (by omega) (by omega)
    unfold school
    simp only [m1]
    cases xs with
    | nil => exact ⟨a1, rfl, by simp [val, m2], m3, m4⟩
    | cons x2 xs2 =>
      simp only
      cases a1 with
      | nil => simp at m3; omega
      | cons a0 rest =>
        simp only
        have hrl : rest.length + 1 = acc.length := by simpa using m3
        have hv2 : val rest + val y * val (x2 :: xs2) < B ^ rest.length := by
          rw [val_cons] at m2
          have hp : B ^ acc.length = B * B ^ rest.length := by rw [← hrl, pow_succ]; ring
          rw [hp] at hv
          apply mx_lt_of_mul_add_lt (lo := a0) (P := B)
          rw [Nat.mul_add]; omega
        obtain ⟨r, i1, i2, i3, i4⟩ := ih rest hx.tail m4.tail
          (by intro _; simp only [List.length_cons] at hl' ⊢; omega) hv2
        simp only [i1]
        refine ⟨a0 :: r, rfl, ?_, by simp [i3, hrl], DigitsOk.cons m4.head i4⟩
        rw [val_cons] at m2
        rw [val_cons, i2, Nat.mul_add]; omega

/-! ### low zero digits -/

theorem lowZeros_le : ∀ (b : List Nat), lowZeros b ≤ b.length := by
  intro b
  induction b with
  | nil => simp [lowZeros]
  | cons d t ih =>
    cases d with
    | zero => simp only [lowZeros, List.length_cons]; omega
    | succ k => simp [lowZeros]

theorem val_drop_lowZeros : ∀ (b : List Nat), val b = B ^ lowZeros b * val (b.drop (lowZeros b)) := by
  intro b
  induction b with
  | nil => simp [lowZeros, val]
  | cons d t ih =>
    cases d with
    | zero =>
      simp only [lowZeros, List.drop_succ_cons, pow_succ]
      rw [val_cons, ih]; ring
    | succ k => simp [lowZeros]

theorem val_eq_zero_of_lowZeros_all (b : List Nat) (h : lowZeros b = b.length) : val b = 0 := by
  rw [val_drop_lowZeros b, h, List.drop_length]; simp [val]

/-! ### `sub_sign` -/

theorem mx_normalize_of_getLast_ne {a : List Nat} (h : a.getLast? ≠ some 0) : normalize a = a := by
  induction a with
  | nil => rfl
  | cons d ds ih =>
    cases ds with
    | nil =>
      have : d ≠ 0 := by intro hd; exact h (by simp [hd])
      simp [normalize, this]
    | cons e es =>
      have ht := ih (by simpa [List.getLast?_cons_cons] using h)
      simp only [normalize] at ht ⊢
      rw [ht]

theorem stripHigh_eq (a : List Nat) : stripHigh a = normalize a := by
  unfold stripHigh
  split
  · rfl
  · rename_i h; exact (mx_normalize_of_getLast_ne h).symm

theorem subSign_spec (P : Params) (a b : List Nat) (ha : DigitsOk a) (hb : DigitsOk b) :
    ∃ s m, subSign P a b = .ok (s, m) ∧ Canon m ∧
      ((s = .plus ∧ val b < val a ∧ val m + val b = val a) ∨
       (s = .minus ∧ val a < val b ∧ val m + val a = val b) ∨
       (s = .nosign ∧ val a = val b ∧ m = [])) := by
  unfold subSign
  simp only [stripHigh_eq]
  have hca := normalize_canon ha
  have hcb := normalize_canon hb
  rw [cmpSlice_spec hca hcb, normalize_val, normalize_val]
  rcases Nat.lt_trichotomy (val a) (val b) with h | h | h
  · rw [Nat.compare_eq_lt.mpr h]
    obtain ⟨r, r1, r2, _, r4⟩ := (sub2_spec P (normalize b) (normalize a) hcb.1 hca.1).2
      (by rw [normalize_val, normalize_val]; omega)
    simp only [r1]
    refine ⟨_, _, rfl, normalize_canon r4, Or.inr (Or.inl ⟨rfl, h, ?_⟩)⟩
    rw [normalize_val, r2, normalize_val, normalize_val]; omega
  · rw [Nat.compare_eq_eq.mpr h]
    exact ⟨_, _, rfl, canon_nil, Or.inr (Or.inr ⟨rfl, h, rfl⟩)⟩
  · rw [Nat.compare_eq_gt.mpr h]
    obtain ⟨r, r1, r2, _, r4⟩ := (sub2_spec P (normalize a) (normalize b) hca.1 hcb.1).2
      (by rw [normalize_val, normalize_val]; omega)
    simp only [r1]
    refine ⟨_, _, rfl, normalize_canon r4, Or.inl ⟨rfl, h, ?_⟩⟩
    rw [normalize_val, r2, normalize_val, normalize_val]; omega

/-! ### `scalar_mul` -/

theorem mulCarryLoop_spec (b : Nat) (hb : b < B) : ∀ (a : List Nat) (carry : Nat), DigitsOk a → carry < B →
    ∃ lo fc, mulCarryLoop b carry a = lo ++ (if fc ≠ 0 then [fc % B] else []) ∧ lo.length = a.length ∧
      DigitsOk lo ∧ fc < B ∧ val lo + B ^ a.length * fc = carry + val a * b := by
  intro a
  induction a with
  | nil =>
    intro carry _ hc
    exact ⟨[], carry, by simp [mulCarryLoop], rfl, DigitsOk.nil, hc, by simp [val]⟩
  | cons x xs ih =>
    intro carry ha hc
    have hx := ha.head
    have hxb : x * b ≤ (B - 1) * (B - 1) := Nat.mul_le_mul (by omega) (by omega)
    have hBB : (B - 1) * (B - 1) + 2 * (B - 1) < B * B := by decide
    have ht : (carry + x * b) / B < B := by rw [Nat.div_lt_iff_lt_mul B_pos]; omega
    obtain ⟨lo, fc, e, l1, l2, l3, l4⟩ := ih ((carry + x * b) / B) ha.tail ht
    refine ⟨(carry + x * b) % B :: lo, fc, ?_, by simp [l1], DigitsOk.cons (Nat.mod_lt _ B_pos) l2, l3, ?_⟩
    · simp only [mulCarryLoop, e, List.cons_append]
    · simp only [val, List.length_cons, pow_succ]
      have h2 := Nat.mod_add_div (carry + x * b) B
      have e1 : B ^ xs.length * B * fc = B * (B ^ xs.length * fc) := by ring
      have e2 : (x + B * val xs) * b = x * b + B * (val xs * b) := by ring
      rw [e1, e2]
      have h1 := congrArg (B * ·) l4
      simp only [Nat.mul_add] at h1
      generalize (carry + x * b) % B = m at *
      generalize (carry + x * b) / B = q at *
      generalize x * b = xb at *
      omega

theorem canon_of_lo_carry {lo : List Nat} {fc n v : Nat} (hlo : DigitsOk lo) (hl : lo.length = n)
    (hfc : fc < B) (hv : val lo + B ^ n * fc = v) (hge : 0 < n → B ^ (n - 1) ≤ v) :
    Canon (lo ++ (if fc ≠ 0 then [fc % B] else [])) ∧ val (lo ++ (if fc ≠ 0 then [fc % B] else [])) = v := by
  by_cases h0 : fc = 0
  · subst h0
    simp only [ne_eq, not_true_eq_false, if_false, List.append_nil]
    simp only [Nat.mul_zero, Nat.add_zero] at hv
    refine ⟨canon_of_val_ge hlo ?_, hv⟩
    intro hne
    have : 0 < n := by rw [← hl]; exact List.length_pos_iff.mpr hne
    rw [hl, hv]; exact hge this
  · simp only [ne_eq, h0, not_false_eq_true, if_true, Nat.mod_eq_of_lt hfc]
    refine ⟨canon_append_singleton hlo hfc h0, ?_⟩
    rw [val_append, hl]; simp only [val, Nat.mul_zero, Nat.add_zero]; exact hv

theorem trailingZeros_go_le : ∀ (f b : Nat), trailingZeros.go f b ≤ f := by
  intro f
  induction f with
  | zero => intro b; simp [trailingZeros.go]
  | succ k ih =>
    intro b
    simp only [trailingZeros.go]
    split
    · omega
    · have := ih (b / 2); omega

theorem shlLoop_spec (k : Nat) (hk0 : 0 < k) (hk : k < BITS) : ∀ (a : List Nat) (carry : Nat), DigitsOk a →
    carry < 2 ^ k →
    ∃ lo fc, shlLoop k carry a = lo ++ (if fc ≠ 0 then [fc % B] else []) ∧ lo.length = a.length ∧
      DigitsOk lo ∧ fc < B ∧ val lo + B ^ a.length * fc = carry + val a * 2 ^ k := by
  have hB : B = 2 ^ (BITS - k) * 2 ^ k := by
    rw [← pow_add, B_eq]; congr 1; unfold BITS at *; omega
  have hkB : 2 ^ k < B := by
    rw [B_eq]; exact Nat.pow_lt_pow_right (by omega) (by unfold BITS at hk; omega)
  intro a
  induction a with
  | nil =>
    intro carry _ hc
    refine ⟨[], carry, ?_, rfl, DigitsOk.nil, by omega, by simp [val]⟩
    have : carry % B = carry := Nat.mod_eq_of_lt (by omega)
    simp [shlLoop, this]
  | cons x xs ih =>
    intro carry ha hc
    have hx := ha.head
    have hq : x >>> (BITS - k) < 2 ^ k := by
      rw [Nat.shiftRight_eq_div_pow, Nat.div_lt_iff_lt_mul (Nat.pow_pos (by omega))]
      rw [Nat.mul_comm, ← hB]; exact hx
    obtain ⟨lo, fc, e, l1, l2, l3, l4⟩ := ih (x >>> (BITS - k)) ha.tail hq
    have hmod : (x <<< k) % B = (x % 2 ^ (BITS - k)) <<< k := by
      rw [Nat.shiftLeft_eq, Nat.shiftLeft_eq, hB, Nat.mul_mod_mul_right]
    have hor : ((x <<< k) % B) ||| carry = (x <<< k) % B + carry := by
      rw [hmod, ← Nat.shiftLeft_add_eq_or_of_lt hc]
    have hdiv : (x * 2 ^ k) / B = x >>> (BITS - k) := by
      rw [Nat.shiftRight_eq_div_pow, hB, Nat.mul_div_mul_right _ _ (Nat.pow_pos (by omega))]
    have hlt : (x <<< k) % B + carry < B := by
      rw [hmod, Nat.shiftLeft_eq]
      have : x % 2 ^ (BITS - k) < 2 ^ (BITS - k) := Nat.mod_lt _ (Nat.pow_pos (by omega))
      have h2 : (x % 2 ^ (BITS - k) + 1) * 2 ^ k ≤ 2 ^ (BITS - k) * 2 ^ k := Nat.mul_le_mul_right _ this
      rw [← hB, Nat.add_mul] at h2
      omega
    refine ⟨((x <<< k) % B ||| carry) :: lo, fc, ?_, by simp [l1], DigitsOk.cons (by rw [hor]; exact hlt) l2, l3, ?_⟩
    · simp only [shlLoop, e, List.cons_append]
    · rw [hor]
      simp only [val, List.length_cons, pow_succ]
      have h2 := Nat.mod_add_div (x * 2 ^ k) B
      rw [hdiv] at h2
      rw [Nat.shiftLeft_eq]
      have e1 : B ^ xs.length * B * fc = B * (B ^ xs.length * fc) := by ring
      have e2 : (x + B * val xs) * 2 ^ k = x * 2 ^ k + B * (val xs * 2 ^ k) := by ring
      rw [e1, e2]
      have h1 := congrArg (B * ·) l4
      simp only [Nat.mul_add] at h1
      generalize (x * 2 ^ k) % B = m at *
      generalize x >>> (BITS - k) = q at *
      generalize x * 2 ^ k = xb at *
      omega

/-- `scalar_mul` returns the canonical product (zero, one, power-of-two and general paths) -/
theorem scalarMul_spec (a : List Nat) (d : Nat) (ha : Canon a) (hd : d < B) :
    scalarMul a d = ofNat (val a * d) := by
  have key : Canon (scalarMul a d) ∧ val (scalarMul a d) = val a * d := by
    unfold scalarMul
    by_cases h0 : d = 0
    · simp [h0, canon_nil, val]
    · simp only [h0, if_false]
      by_cases h1 : d = 1
      · simp [h1, ha]
      · simp only [h1, if_false]
        have hge : 0 < a.length → B ^ (a.length - 1) ≤ val a * d := by
          intro hpos
          have hne : a ≠ [] := List.ne_nil_of_length_pos hpos
          calc B ^ (a.length - 1) ≤ val a := canon_val_ge ha hne
            _ = val a * 1 := (Nat.mul_one _).symm
            _ ≤ val a * d := Nat.mul_le_mul_left _ (by omega)
        by_cases hp : isPow2 d = true
        · simp only [hp, if_true]
          unfold shlBits
          by_cases hane : a = []
          · simp [hane, canon_nil, val]
          · simp only [hane, if_false]
            have hdk : d = 2 ^ trailingZeros d := by
              unfold isPow2 at hp
              simp only [Bool.and_eq_true, bne_iff_ne, beq_iff_eq] at hp
              exact hp.2
            have hk0 : 0 < trailingZeros d := by
              rcases Nat.eq_zero_or_pos (trailingZeros d) with hz | hz
              · rw [hz] at hdk; simp at hdk; omega
              · exact hz
            have hk : trailingZeros d < BITS := by
              have : 2 ^ trailingZeros d < 2 ^ 64 := by rw [← hdk, ← B_eq]; exact hd
              exact (Nat.pow_lt_pow_iff_right (by omega)).mp this
            simp only [hk0, if_true]
            obtain ⟨lo, fc, e, l1, l2, l3, l4⟩ := shlLoop_spec (trailingZeros d) hk0 hk a 0 ha.1
              (Nat.pow_pos (by omega))
            rw [e]
            rw [← hdk, Nat.zero_add] at l4
            obtain ⟨c1, c2⟩ := canon_of_lo_carry l2 l1 l3 l4 hge
            rw [normalize_of_canon c1]
            exact ⟨c1, c2⟩
        · simp only [hp]
          obtain ⟨lo, fc, e, l1, l2, l3, l4⟩ := mulCarryLoop_spec d hd a 0 ha.1 B_pos
          rw [e]
          rw [Nat.zero_add] at l4
          simpa using canon_of_lo_carry l2 l1 l3 l4 hge
  rw [canon_eq_ofNat key.1, key.2]

end NB.Mul
