/- helper lemmas for C05: plain_modpow, modinv (value level) -/
import NB.Lemmas.Base
import NB.Lemmas.Canon
import NB.Model.ModPow
import Mathlib.Data.Nat.ModEq
import Mathlib.Tactic.Ring
import Mathlib.Tactic.Linarith
import Mathlib.Algebra.Ring.Parity
namespace NB

theorem BITS_eq : BITS = 64 := rfl
theorem B_eq_bits : B = 2 ^ BITS := by decide

/-! ### repeated squaring -/

theorem sqTimes_lt {m : Nat} (hm : 0 < m) : ∀ k base, base < m → sqTimes m k base < m
  | 0, _, h => h
  | k + 1, base, _ => sqTimes_lt hm k _ (Nat.mod_lt _ hm)

theorem sqTimes_modEq (m : Nat) : ∀ k base, sqTimes m k base ≡ base ^ (2 ^ k) [MOD m]
  | 0, base => by simp [sqTimes, Nat.ModEq]
  | k + 1, base => by
    have ih := sqTimes_modEq m k (base * base % m)
    have h2 : base * base % m ≡ base ^ 2 [MOD m] := by
      rw [pow_two]; exact Nat.mod_modEq _ _
    have h3 := h2.pow (2 ^ k)
    rw [← pow_mul] at h3
    have : 2 * 2 ^ k = 2 ^ (k + 1) := by ring
    rw [this] at h3
    exact ih.trans h3

/-! ### trailing-zero stripping -/

theorem stripZeros_spec (m : Nat) : ∀ r b base, r ≠ 0 →
    ∃ r' t base', stripZeros m r b base = .ok (r', b + t, base') ∧ r' % 2 = 1 ∧ r = r' * 2 ^ t ∧
      base' ≡ base ^ (2 ^ t) [MOD m] ∧ (base < m → base' < m) := by
  intro r
  induction r using Nat.strongRecOn with
  | _ r ih =>
    intro b base hr
    rw [stripZeros]
    simp only [hr, dite_false]
    by_cases h2 : r % 2 = 0
    · simp only [h2, dite_true]
      have hlt : r / 2 < r := by omega
      have hne : r / 2 ≠ 0 := by omega
      obtain ⟨r', t, base', h1, h3, h4, h5, h6⟩ := ih (r / 2) hlt (b + 1) (base * base % m) hne
      refine ⟨r', t + 1, base', ?_, h3, ?_, ?_, ?_⟩
      · rw [h1]; congr 3; omega
      · rw [pow_succ, ← mul_assoc, ← h4]; omega
      · have e1 : base * base % m ≡ base ^ 2 [MOD m] := by rw [pow_two]; exact Nat.mod_modEq _ _
        have e2 := e1.pow (2 ^ t)
        rw [← pow_mul] at e2
        have : 2 * 2 ^ t = 2 ^ (t + 1) := by ring
        rw [this] at e2
        exact h5.trans e2
      · intro hb
        exact h6 (Nat.mod_lt _ (by omega))
    · simp only [h2, dite_false]
      exact ⟨r, 0, base, by simp, by omega, by simp, by simp [Nat.ModEq], fun h => h⟩

/-! ### the square-and-multiply invariant: `acc · base^(2q) ≡ T`, `q` = exponent bits still to come -/

def SqInv (m T : Nat) (s : Nat × Nat) (q : Nat) : Prop := s.2 * s.1 ^ (2 * q) ≡ T [MOD m] ∧ s.2 < m

theorem unitStep_inv {m T : Nat} (hm : 0 < m) (s : Nat × Nat) (q : Nat) (h : SqInv m T s q) :
    SqInv m T (unitStep m (decide (q % 2 = 1)) s) (q / 2) := by
  obtain ⟨hc, hlt⟩ := h
  have hb : s.1 * s.1 % m ≡ s.1 ^ 2 [MOD m] := by rw [pow_two]; exact Nat.mod_modEq _ _
  unfold unitStep
  by_cases hq : q % 2 = 1
  · simp only [hq, decide_true, if_true]
    refine ⟨?_, Nat.mod_lt _ hm⟩
    -- acc * b' % m * b'^(2 (q/2)) ≡ acc * b'^(q) ≡ acc * base^(2q)
    have e1 : s.2 * (s.1 * s.1 % m) % m * (s.1 * s.1 % m) ^ (2 * (q / 2))
        ≡ s.2 * (s.1 * s.1 % m) * (s.1 * s.1 % m) ^ (2 * (q / 2)) [MOD m] :=
      (Nat.mod_modEq _ _).mul_right _
    have e2 : s.2 * (s.1 * s.1 % m) * (s.1 * s.1 % m) ^ (2 * (q / 2)) = s.2 * (s.1 * s.1 % m) ^ q := by
      have : q = 2 * (q / 2) + 1 := by omega
      conv_rhs => rw [this, pow_succ]
      ring
    have e3 : s.2 * (s.1 * s.1 % m) ^ q ≡ s.2 * (s.1 ^ 2) ^ q [MOD m] := (hb.pow q).mul_left _
    rw [← pow_mul] at e3
    rw [e2] at e1
    exact (e1.trans e3).trans hc
  · have hq0 : q % 2 = 0 := by omega
    simp only [hq, decide_false, Bool.false_eq_true, if_false]
    refine ⟨?_, hlt⟩
    have e3 : s.2 * (s.1 * s.1 % m) ^ (2 * (q / 2)) ≡ s.2 * (s.1 ^ 2) ^ (2 * (q / 2)) [MOD m] :=
      (hb.pow _).mul_left _
    rw [← pow_mul] at e3
    have : 2 * (2 * (q / 2)) = 2 * q := by omega
    rw [this] at e3
    exact e3.trans hc

theorem bitsLoop_inv {m T : Nat} (hm : 0 < m) : ∀ k r s Q, r < 2 ^ k → SqInv m T s (r + 2 ^ k * Q) →
    SqInv m T (bitsLoop m k r s) Q
  | 0, r, s, Q, hr, h => by
    have : r = 0 := by simpa using hr
    subst this
    simpa [bitsLoop] using h
  | k + 1, r, s, Q, hr, h => by
    simp only [bitsLoop]
    have hp : 2 ^ (k + 1) = 2 * 2 ^ k := by ring
    have hmod : (r + 2 ^ (k + 1) * Q) % 2 = r % 2 := by
      rw [hp, mul_assoc]; omega
    have hdiv : (r + 2 ^ (k + 1) * Q) / 2 = r / 2 + 2 ^ k * Q := by
      rw [hp, mul_assoc]; omega
    have h1 := unitStep_inv hm s _ h
    rw [hmod, hdiv] at h1
    exact bitsLoop_inv hm k (r / 2) _ Q (by rw [hp] at hr; omega) h1

theorem midLoop_inv {m T : Nat} (hm : 0 < m) : ∀ ds s Q, DigitsOk ds →
    SqInv m T s (val ds + B ^ ds.length * Q) → SqInv m T (midLoop m ds s) Q
  | [], s, Q, _, h => by simpa [midLoop, val] using h
  | d :: ds, s, Q, hd, h => by
    simp only [midLoop]
    apply midLoop_inv hm ds _ Q hd.tail
    apply bitsLoop_inv hm BITS d s _ (by rw [← B_eq_bits]; exact hd.head)
    rw [← B_eq_bits]
    have : val (d :: ds) + B ^ (d :: ds).length * Q = d + B * (val ds + B ^ ds.length * Q) := by
      simp only [val, List.length_cons, pow_succ]; ring
    rwa [this] at h

theorem whileLoop_inv {m T : Nat} (hm : 0 < m) : ∀ r s, SqInv m T s r → SqInv m T (whileLoop m r s) 0 := by
  intro r
  induction r using Nat.strongRecOn with
  | _ r ih =>
    intro s h
    rw [whileLoop]
    by_cases hr : r = 0
    · subst hr; simpa using h
    · simp only [hr, dite_false]
      exact ih (r / 2) (by omega) _ (unitStep_inv hm s r h)

theorem sqInv_zero {m T : Nat} {s : Nat × Nat} (h : SqInv m T s 0) : s.2 = T % m := by
  obtain ⟨hc, hlt⟩ := h
  simp only [Nat.mul_zero, pow_zero, Nat.mul_one] at hc
  have := hc
  unfold Nat.ModEq at this
  rw [Nat.mod_eq_of_lt hlt] at this
  exact this

/-! ### position of the first non-zero exponent digit -/

theorem firstNonzero_none : ∀ e, firstNonzero e = none → val e = 0
  | [], _ => rfl
  | d :: ds, h => by
    simp only [firstNonzero] at h
    by_cases hd : d = 0
    · simp only [hd, ne_eq, not_true_eq_false, if_false, Option.map_eq_none_iff] at h
      simp [val, hd, firstNonzero_none ds h]
    · simp [hd] at h

theorem firstNonzero_some : ∀ e i, firstNonzero e = some i →
    e.getD i 0 ≠ 0 ∧ val e = B ^ i * (e.getD i 0 + B * val (e.drop (i + 1))) ∧
      e = List.replicate i 0 ++ e.getD i 0 :: e.drop (i + 1)
  | [], _, h => by simp [firstNonzero] at h
  | d :: ds, i, h => by
    simp only [firstNonzero] at h
    by_cases hd : d = 0
    · simp only [hd, ne_eq, not_true_eq_false, if_false, Option.map_eq_some_iff] at h
      obtain ⟨j, hj, rfl⟩ := h
      obtain ⟨h1, h2, h3⟩ := firstNonzero_some ds j hj
      refine ⟨by simpa using h1, ?_, ?_⟩
      · simp only [val, hd, List.getD_cons_succ, List.drop_succ_cons, Nat.zero_add]
        rw [h2, pow_succ]; ring
      · simp only [List.getD_cons_succ, List.drop_succ_cons, List.replicate_succ, List.cons_append]
        rw [← h3, hd]
    · simp only [hd, ne_eq, not_false_eq_true, if_true, Option.some.injEq] at h
      subst h
      exact ⟨by simpa using hd, by simp [val], by simp⟩

theorem exp_decomp (i t r V : Nat) (ht : t ≤ 64) :
    B ^ i * (r * 2 ^ t + B * V) = 2 ^ (64 * i + t) * (r + 2 ^ (64 - t) * V) := by
  have hB : B = 2 ^ t * 2 ^ (64 - t) := by
    rw [← pow_add, B_eq]; congr 1; omega
  have hBi : B ^ i = 2 ^ (64 * i) := by rw [B_eq, ← pow_mul]
  rw [pow_add, hBi]
  conv_lhs => rw [hB]
  ring

theorem modEq_eq_mod {m a T : Nat} (h : a ≡ T [MOD m]) (hlt : a < m) : a = T % m := by
  unfold Nat.ModEq at h
  rwa [Nat.mod_eq_of_lt hlt] at h

/-- `plain_modpow` returns `b^e mod m` (and `1` for a zero exponent, whatever the modulus) -/
theorem plainModpow_spec (b : Nat) (e : List Nat) (m : Nat) (he : Canon e) (hm : m ≠ 0) :
    plainModpow b e m = .ok (if val e = 0 then 1 else b ^ val e % m) := by
  have hm0 : 0 < m := Nat.pos_of_ne_zero hm
  unfold plainModpow
  simp only [hm, if_false]
  cases hf : firstNonzero e with
  | none => simp [firstNonzero_none e hf]
  | some i =>
    obtain ⟨hd, hv, hsplit⟩ := firstNonzero_some e i hf
    simp only []
    generalize hdd : e.getD i 0 = d at *
    generalize hrr : e.drop (i + 1) = rest at *
    have hok : DigitsOk (d :: rest) := by
      have := he.1; rw [hsplit] at this; exact this.right
    have hdB : d < B := hok.head
    have hrest : DigitsOk rest := hok.tail
    obtain ⟨r', t, base', hs, hodd, hdr, hb', hlt'⟩ :=
      stripZeros_spec m d 0 (sqTimes m (i * BITS) (b % m)) hd
    rw [hs]
    simp only [Nat.zero_add]
    have hbase_lt : base' < m := hlt' (sqTimes_lt hm0 _ _ (Nat.mod_lt _ hm0))
    have hr'pos : 1 ≤ r' := by omega
    have ht : t < 64 := by
      have h1 : 2 ^ t ≤ d := by rw [hdr]; exact Nat.le_mul_of_pos_left _ hr'pos
      have h2 : 2 ^ t < 2 ^ 64 := by rw [← B_eq]; omega
      exact (Nat.pow_lt_pow_iff_right (by decide)).mp h2
    have hve : val e = 2 ^ (64 * i + t) * (r' + 2 ^ (64 - t) * val rest) := by
      rw [hv, hdr]; exact exp_decomp i t r' (val rest) (by omega)
    have hve0 : val e ≠ 0 := by
      rw [hve]; positivity
    simp only [hve0, if_false]
    -- base' ≡ b^(2^(64 i + t))
    have hb2 : base' ≡ b ^ (2 ^ (64 * i + t)) [MOD m] := by
      have e1 := sqTimes_modEq m (i * BITS) (b % m)
      have e2 : (b % m) ^ (2 ^ (i * BITS)) ≡ b ^ (2 ^ (i * BITS)) [MOD m] := (Nat.mod_modEq b m).pow _
      have e3 := ((e1.trans e2).pow (2 ^ t))
      rw [← pow_mul, ← pow_add] at e3
      have : i * BITS + t = 64 * i + t := by rw [BITS_eq]; ring
      rw [this] at e3
      exact hb'.trans e3
    -- b^(val e) ≡ base'^(e')
    have hT : base' ^ (r' + 2 ^ (64 - t) * val rest) ≡ b ^ val e [MOD m] := by
      rw [hve, pow_mul]; exact hb2.pow _
    by_cases hA : rest.length = 0 ∧ r' = 1
    · simp only [hA, and_self, if_true]
      obtain ⟨hA1, hA2⟩ := hA
      have : rest = [] := List.eq_nil_of_length_eq_zero hA1
      subst this
      simp only [val, Nat.mul_zero, Nat.add_zero, hA2, pow_one] at hT
      rw [modEq_eq_mod hT hbase_lt]
    · simp only [hA, if_false]
      -- start of the multiply phase: acc = base', q0 = r'/2 + 2^(63-t) * val rest
      have hinv0 : SqInv m (b ^ val e) (base', base') (r' / 2 + 2 ^ (63 - t) * val rest) := by
        refine ⟨?_, hbase_lt⟩
        have : base' * base' ^ (2 * (r' / 2 + 2 ^ (63 - t) * val rest))
            = base' ^ (r' + 2 ^ (64 - t) * val rest) := by
          have h64 : 2 ^ (64 - t) = 2 * 2 ^ (63 - t) := by
            rw [← pow_succ']; congr 1; omega
          have : r' + 2 ^ (64 - t) * val rest = 2 * (r' / 2 + 2 ^ (63 - t) * val rest) + 1 := by
            rw [h64]; have := Nat.div_add_mod r' 2; rw [hodd] at this
            have h3 : 2 * 2 ^ (63 - t) * val rest = 2 * (2 ^ (63 - t) * val rest) := by ring
            rw [h3]; omega
          rw [this, pow_succ]; ring
        simp only
        rw [this]; exact hT
      rcases List.eq_nil_or_concat rest with hnil | ⟨mid, last, hcat⟩
      · subst hnil
        simp only [List.getLast?_nil]
        simp only [val, Nat.mul_zero, Nat.add_zero] at hinv0
        have hr2 : r' / 2 ≠ 0 := by
          intro h0; apply hA; refine ⟨rfl, ?_⟩; omega
        simp only [hr2, if_false]
        rw [sqInv_zero (whileLoop_inv hm0 _ _ hinv0)]
      · rw [List.concat_eq_append] at hcat
        subst hcat
        simp only [List.getLast?_concat, List.dropLast_concat]
        have hlast : last ≠ 0 := by
          intro h0
          apply he.2
          have : e = (List.replicate i 0 ++ d :: mid) ++ [last] := by
            conv_lhs => rw [hsplit]
            simp
          rw [this, h0]; exact List.getLast?_concat
        simp only [hlast, if_false]
        have hvr : val (mid ++ [last]) = val mid + B ^ mid.length * last := by
          rw [val_append]; simp [val]
        rw [hvr] at hinv0
        have hBITS : BITS - (t + 1) = 63 - t := by rw [BITS_eq]; omega
        have hr'lt : r' / 2 < 2 ^ (BITS - (t + 1)) := by
          have h1 : r' * 2 ^ t < 2 ^ 64 := by rw [← hdr, ← B_eq]; exact hdB
          have h2 : (2:Nat) ^ 64 = 2 ^ (63 - t) * 2 * 2 ^ t := by
            rw [← pow_succ, ← pow_add]; congr 1; omega
          rw [h2] at h1
          have h3 : r' < 2 ^ (63 - t) * 2 := Nat.lt_of_mul_lt_mul_right h1
          rw [hBITS]; omega
        have h1 := bitsLoop_inv hm0 (BITS - (t + 1)) (r' / 2) (base', base') _ hr'lt (by rw [hBITS]; exact hinv0)
        have h2 := midLoop_inv hm0 mid _ last hrest.left h1
        rw [sqInv_zero (whileLoop_inv hm0 _ _ h2)]

/-! ### modinv: extended Euclid with coefficients kept modulo `m` -/

theorem subU_ok {a b : Nat} (h : b ≤ a) : subU a b = .ok (a - b) := by
  unfold subU; simp [Nat.not_lt.mpr h]

theorem modinvLoop_spec (m a : Nat) (hm : 0 < m) : ∀ r1 r0 t0 t1, t0 < m → t1 < m →
    t0 * a ≡ r0 [MOD m] → t1 * a ≡ r1 [MOD m] →
    ∃ t, modinvLoop m r0 r1 t0 t1 = .ok (Nat.gcd r0 r1, t) ∧ t < m ∧ t * a ≡ Nat.gcd r0 r1 [MOD m] := by
  intro r1
  induction r1 using Nat.strongRecOn with
  | _ r1 ih =>
    intro r0 t0 t1 h0 h1 c0 c1
    rw [modinvLoop]
    by_cases hr : r1 = 0
    · subst hr
      simp only [dite_true, Nat.gcd_zero_right]
      exact ⟨t0, rfl, h0, c0⟩
    · simp only [hr, dite_false]
      have hlt : r0 % r1 < r1 := Nat.mod_lt _ (Nat.pos_of_ne_zero hr)
      have hg : Nat.gcd r0 r1 = Nat.gcd r1 (r0 % r1) := by
        rw [Nat.gcd_comm r0 r1, Nat.gcd_rec r1 r0, Nat.gcd_comm]
      generalize hqt : r0 / r1 * t1 % m = qt1
      have hq : qt1 < m := by rw [← hqt]; exact Nat.mod_lt _ hm
      have hqc : qt1 ≡ r0 / r1 * t1 [MOD m] := by rw [← hqt]; exact Nat.mod_modEq _ _
      have key : ∀ t2, t2 + qt1 ≡ t0 [MOD m] → t2 * a ≡ r0 % r1 [MOD m] := by
        intro t2 h2
        apply Nat.ModEq.add_right_cancel' (r0 / r1 * r1)
        have e1 : t2 * a + r0 / r1 * r1 ≡ t2 * a + r0 / r1 * (t1 * a) [MOD m] :=
          Nat.ModEq.add_left _ (c1.symm.mul_left _)
        have e2 : t2 * a + r0 / r1 * (t1 * a) = (t2 + r0 / r1 * t1) * a := by ring
        have e3 : (t2 + r0 / r1 * t1) * a ≡ (t2 + qt1) * a [MOD m] :=
          (Nat.ModEq.add_left _ hqc.symm).mul_right _
        have e4 : (t2 + qt1) * a ≡ t0 * a [MOD m] := h2.mul_right _
        have e5 : r0 % r1 + r0 / r1 * r1 = r0 := by
          rw [Nat.mul_comm]; exact Nat.mod_add_div r0 r1
        rw [e5]
        rw [e2] at e1
        exact ((e1.trans e3).trans e4).trans c0
      by_cases hlt0 : t0 < qt1
      · simp only [hlt0, if_true]
        rw [subU_ok (Nat.le_of_lt hq)]
        simp only []
        have ht2 : t0 + (m - qt1) < m := by omega
        have hk := key (t0 + (m - qt1)) (by
          have : t0 + (m - qt1) + qt1 = t0 + m := by omega
          rw [this]; simp [Nat.ModEq])
        obtain ⟨t, e, hlt', hc⟩ := ih (r0 % r1) hlt r1 t1 (t0 + (m - qt1)) h1 ht2 c1 hk
        exact ⟨t, by rw [e, hg], hlt', by rw [hg]; exact hc⟩
      · simp only [hlt0, if_false]
        have ht2 : t0 - qt1 < m := by omega
        have hk := key (t0 - qt1) (by
          have : t0 - qt1 + qt1 = t0 := by omega
          rw [this])
        obtain ⟨t, e, hlt', hc⟩ := ih (r0 % r1) hlt r1 t1 (t0 - qt1) h1 ht2 c1 hk
        exact ⟨t, by rw [e, hg], hlt', by rw [hg]; exact hc⟩

/-- `BigUint::modinv`: `Some x` exactly when `gcd(a, m) = 1`, and then `x < m`, `a·x ≡ 1 (mod m)`;
    no checked subtraction ever underflows -/
theorem modinvU_spec (a m : Nat) (hm : m ≠ 0) :
    ∃ r, modinvU a m = .ok r ∧ (r.isSome ↔ Nat.gcd a m = 1) ∧
      ∀ x, r = some x → x < m ∧ a * x % m = 1 % m := by
  have hm0 : 0 < m := Nat.pos_of_ne_zero hm
  unfold modinvU
  simp only [hm, if_false]
  by_cases h1 : m = 1
  · subst h1
    exact ⟨some 0, by simp, by simp, by intro x hx; cases hx; simp⟩
  simp only [h1, if_false]
  have hgm : Nat.gcd a m = Nat.gcd (a % m) m := by
    rw [Nat.gcd_comm a m, Nat.gcd_rec m a]
  generalize hr1 : a % m = r1 at *
  have hr1m : r1 < m := by rw [← hr1]; exact Nat.mod_lt _ hm0
  by_cases hz : r1 = 0
  · subst hz
    refine ⟨none, by simp, ?_, by intro x hx; cases hx⟩
    simp [hgm, h1]
  simp only [hz, if_false]
  by_cases ho : r1 = 1
  · subst ho
    refine ⟨some 1, by simp, by simp [hgm], ?_⟩
    intro x hx; cases hx
    refine ⟨by omega, ?_⟩
    rw [Nat.mul_one, hr1, Nat.mod_eq_of_lt (show 1 < m by omega)]
  simp only [ho, if_false]
  by_cases h2 : m % r1 = 0
  · simp only [h2, if_true]
    refine ⟨none, rfl, ?_, by intro x hx; cases hx⟩
    have : Nat.gcd r1 m = r1 := Nat.gcd_eq_left (Nat.dvd_of_mod_eq_zero h2)
    simp [hgm, this, ho]
  simp only [h2, if_false]
  have hq1 : 1 ≤ m / r1 := Nat.div_pos (Nat.le_of_lt hr1m) (Nat.pos_of_ne_zero hz)
  have hqm : m / r1 ≤ m := Nat.div_le_self _ _
  rw [subU_ok hqm]
  simp only []
  -- invariant of the loop with respect to r1 (≡ a)
  have c0 : 1 * r1 ≡ r1 [MOD m] := by simp [Nat.ModEq]
  have c1 : (m - m / r1) * r1 ≡ m % r1 [MOD m] := by
    apply Nat.ModEq.add_right_cancel' (m / r1 * r1)
    have e1 : (m - m / r1) * r1 + m / r1 * r1 = m * r1 := by
      rw [← Nat.add_mul]; congr 1; omega
    have e2 : m % r1 + m / r1 * r1 = m := by
      rw [Nat.mul_comm]; exact Nat.mod_add_div m r1
    rw [e1, e2]
    simp [Nat.ModEq]
  obtain ⟨t, e, hlt, hc⟩ := modinvLoop_spec m r1 hm0 (m % r1) r1 1 (m - m / r1) (by omega) (by omega) c0 c1
  rw [e]
  simp only []
  have hg2 : Nat.gcd r1 (m % r1) = Nat.gcd a m := by
    rw [hgm, Nat.gcd_rec r1 m, Nat.gcd_comm]
  by_cases hg1 : Nat.gcd r1 (m % r1) = 1
  · simp only [hg1, if_true]
    refine ⟨some t, rfl, by simp [← hg2, hg1], ?_⟩
    intro x hx; cases hx
    refine ⟨hlt, ?_⟩
    rw [hg1] at hc
    have : a * t ≡ t * r1 [MOD m] := by
      rw [Nat.mul_comm a t]
      exact Nat.ModEq.mul_left _ (by rw [← hr1]; exact (Nat.mod_modEq a m).symm)
    exact this.trans hc
  · simp only [hg1, if_false]
    exact ⟨none, rfl, by simp [← hg2, hg1], by intro x hx; cases hx⟩

theorem modinvU_zero (a : Nat) : modinvU a 0 = .error .zeromod := by simp [modinvU]

/-! ### BigInt wrappers: sign placement = floor-mod with the sign of the modulus -/

theorem bigint_canon_cases {y : BigInt} (hy : y.Canon) :
    (y.sign = .minus ∧ y.val = -(val y.mag : Int) ∧ 0 < val y.mag) ∨
    (y.sign = .nosign ∧ y.val = 0 ∧ y.mag = []) ∨
    (y.sign = .plus ∧ y.val = (val y.mag : Int) ∧ 0 < val y.mag) := by
  obtain ⟨hc, hs⟩ := hy
  rcases y with ⟨s, mag⟩
  simp only at hc hs ⊢
  cases s with
  | minus =>
    left
    have hne : mag ≠ [] := fun h => by simpa using hs.mpr h
    exact ⟨rfl, rfl, canon_val_pos hc hne⟩
  | nosign =>
    right; left
    exact ⟨rfl, rfl, hs.mp rfl⟩
  | plus =>
    right; right
    have hne : mag ≠ [] := fun h => by simpa using hs.mpr h
    exact ⟨rfl, rfl, canon_val_pos hc hne⟩

theorem isOddU_spec (l : List Nat) : isOddU l = decide (val l % 2 = 1) := by
  cases l with
  | nil => simp [isOddU, val]
  | cons d ds =>
    simp only [isOddU, val]
    congr 1
    have : (d + B * val ds) % 2 = d % 2 := by
      have : B * val ds = 2 * (9223372036854775808 * val ds) := by unfold B; ring
      rw [this]; omega
    rw [this]

theorem ofNat_eq_nil_iff (n : Nat) : ofNat n = [] ↔ n = 0 := by
  constructor
  · intro h; have := ofNat_val n; rw [h] at this; simpa [val] using this.symm
  · intro h; subst h; unfold ofNat; simp

theorem neg_fmod_nat (A M : Nat) (hM : 0 < M) (hA : A % M ≠ 0) :
    Int.fmod (-(A : Int)) (M : Int) = ((M - A % M : Nat) : Int) := by
  have hlt := Nat.mod_lt A hM
  rw [Int.fmod_eq_emod_of_nonneg _ (by omega)]
  have h := Nat.mod_add_div A M
  have e : (-(A : Int)) = ((M - A % M : Nat) : Int) + (M : Int) * (-((A / M : Nat) : Int) - 1) := by
    have h' : (A : Int) = ((A % M : Nat) : Int) + (M : Int) * ((A / M : Nat) : Int) := by
      exact_mod_cast h.symm
    rw [Nat.cast_sub (Nat.le_of_lt hlt)]
    rw [h']; push_cast; ring
  rw [e, Int.add_mul_emod_self_left]
  exact Int.emod_eq_of_lt (by omega) (by omega)

theorem signPlace_spec (xneg mneg : Bool) (M A : Nat) (hM : 0 < M) (hA : A % M ≠ 0) :
    ∃ s mag, signPlace xneg mneg M (A % M) = .ok (s, mag) ∧
      BigInt.fromBiguint s (ofNat mag) =
        BigInt.ofInt (Int.fmod (if xneg = true then -(A : Int) else A) (if mneg = true then -(M : Int) else M)) := by
  have hle : A % M ≤ M := Nat.le_of_lt (Nat.mod_lt A hM)
  cases xneg <;> cases mneg
  · refine ⟨.plus, A % M, rfl, ?_⟩
    rw [fromBiguint_plus (ofNat_canon _), ofNat_val]
    simp only [Bool.false_eq_true, if_false]
    rw [Int.ofNat_fmod]
  · refine ⟨.minus, M - A % M, by simp [signPlace, subU_ok hle], ?_⟩
    rw [fromBiguint_minus (ofNat_canon _), ofNat_val]
    simp only [Bool.false_eq_true, if_false, if_true]
    have := Int.neg_fmod_neg (-(A : Int)) (M : Int)
    rw [neg_neg] at this
    rw [this, neg_fmod_nat A M hM hA]
  · refine ⟨.plus, M - A % M, by simp [signPlace, subU_ok hle], ?_⟩
    rw [fromBiguint_plus (ofNat_canon _), ofNat_val]
    simp only [Bool.false_eq_true, if_false, if_true]
    rw [neg_fmod_nat A M hM hA]
  · refine ⟨.minus, A % M, rfl, ?_⟩
    rw [fromBiguint_minus (ofNat_canon _), ofNat_val]
    simp only [if_true]
    rw [Int.neg_fmod_neg, Int.ofNat_fmod]

theorem bigint_val_eq {y : BigInt} (hy : y.Canon) :
    y.val = if decide (y.sign = .minus) = true then -(NB.val y.mag : Int) else (NB.val y.mag : Int) := by
  rcases bigint_canon_cases hy with ⟨h1, h2, _⟩ | ⟨h1, h2, h3⟩ | ⟨h1, h2, _⟩
  · simp [h1, h2]
  · simp [h1, h2, h3, NB.val]
  · simp [h1, h2]

theorem bigint_natAbs_val {y : BigInt} (hy : y.Canon) : y.val.natAbs = NB.val y.mag := by
  rw [bigint_val_eq hy]; split <;> simp

theorem bigint_sign_nosign_iff {y : BigInt} (hy : y.Canon) : y.sign = .nosign ↔ y.val = 0 := by
  rcases bigint_canon_cases hy with ⟨h1, h2, h3⟩ | ⟨h1, h2, h3⟩ | ⟨h1, h2, h3⟩
  · simp [h1, h2]; omega
  · simp [h1, h2]
  · simp [h1, h2]; omega

theorem bigint_sign_minus_iff {y : BigInt} (hy : y.Canon) : y.sign = .minus ↔ y.val < 0 := by
  rcases bigint_canon_cases hy with ⟨h1, h2, h3⟩ | ⟨h1, h2, h3⟩ | ⟨h1, h2, h3⟩
  · simp [h1, h2]; omega
  · simp [h1, h2]
  · simp [h1, h2]

/-- `BigInt::modpow`, given what the unsigned `modpow` returns on the magnitudes -/
theorem bigint_modpow_of (P : Params) (x e m : BigInt) (hx : x.Canon) (he : e.Canon) (hmc : m.Canon)
    (hU : NB.val m.mag ≠ 0 →
      modpowU P x.mag e.mag m.mag = .ok (ofNat (NB.val x.mag ^ NB.val e.mag % NB.val m.mag))) :
    BigInt.modpow P x e m =
      if e.val < 0 then .error .negexp
      else if m.val = 0 then .error .zeromod
      else .ok (BigInt.ofInt (Int.fmod (x.val ^ e.val.toNat) m.val)) := by
  unfold BigInt.modpow
  have hxv := bigint_val_eq hx
  have hmv := bigint_val_eq hmc
  by_cases hes : e.sign = .minus
  · have : e.val < 0 := (bigint_sign_minus_iff he).mp hes
    simp [hes, this]
  have he0 : ¬ e.val < 0 := fun h => hes ((bigint_sign_minus_iff he).mpr h)
  have hE : e.val.toNat = NB.val e.mag := by
    rw [← bigint_natAbs_val he]; omega
  simp only [hes, he0, if_false]
  by_cases hms : m.sign = .nosign
  · have : m.val = 0 := (bigint_sign_nosign_iff hmc).mp hms
    simp [hms, this]
  have hm0 : m.val ≠ 0 := fun h => hms ((bigint_sign_nosign_iff hmc).mpr h)
  have hMpos : 0 < NB.val m.mag := by
    rw [← bigint_natAbs_val hmc]; omega
  simp only [hms, hm0, if_false]
  rw [hU (by omega)]
  simp only []
  have hma := bigint_natAbs_val hmc
  have hxa := bigint_natAbs_val hx
  have hodd := isOddU_spec e.mag
  generalize NB.val x.mag = X at *
  generalize NB.val e.mag = E at *
  generalize NB.val m.mag = M at *
  by_cases hR : X ^ E % M = 0
  · have : ofNat (X ^ E % M) = [] := (ofNat_eq_nil_iff _).mpr hR
    simp only [this, if_true]
    have hd : m.val ∣ x.val ^ e.val.toNat := by
      rw [← Int.natAbs_dvd_natAbs, Int.natAbs_pow, hE, hma, hxa]
      exact Nat.dvd_of_mod_eq_zero hR
    rw [Int.fmod_eq_zero_of_dvd hd]
    simp [BigInt.ofInt]
  · have hne : ofNat (X ^ E % M) ≠ [] := fun h => hR ((ofNat_eq_nil_iff _).mp h)
    simp only [hne, if_false, ofNat_val]
    obtain ⟨s, mag, h1, h2⟩ :=
      signPlace_spec (decide (x.sign = .minus) && isOddU e.mag) (decide (m.sign = .minus)) M (X ^ E) hMpos hR
    rw [h1]
    simp only []
    rw [h2, hE, hmv, hxv]
    have key : (if (decide (x.sign = .minus) && isOddU e.mag) = true then -((X ^ E : Nat) : Int)
          else ((X ^ E : Nat) : Int))
        = (if decide (x.sign = .minus) = true then -(X : Int) else (X : Int)) ^ E := by
      rw [hodd]
      by_cases hxs : x.sign = .minus <;> by_cases ho : E % 2 = 1
      · simp only [hxs, ho, decide_true, Bool.and_self, if_true]
        rw [Odd.neg_pow (Nat.odd_iff.mpr ho)]; push_cast; rfl
      · simp only [hxs, ho, decide_true, decide_false, Bool.and_false, Bool.false_eq_true, if_false, if_true]
        rw [Even.neg_pow (Nat.even_iff.mpr (by omega))]; push_cast; rfl
      · simp [hxs, ho]
      · simp [hxs, ho]
    rw [key]

theorem bigint_modinv_zero (x m : BigInt) (hmc : m.Canon) (hm : m.val = 0) :
    BigInt.modinv x m = .error .zeromod := by
  have := bigint_natAbs_val hmc
  rw [hm] at this
  unfold BigInt.modinv
  rw [← this]; simp [modinvU]

/-- `BigInt::modinv` for a non-zero modulus -/
theorem bigint_modinv_nonzero (x m : BigInt) (hx : x.Canon) (hmc : m.Canon) (hm : m.val ≠ 0) :
    ∃ r, BigInt.modinv x m = .ok r ∧ (r.isSome ↔ Int.gcd x.val m.val = 1) ∧
      ∀ y, r = some y → y.Canon ∧
        (if 0 < m.val then 0 ≤ y.val ∧ y.val < m.val else m.val < y.val ∧ y.val ≤ 0) ∧
        m.val ∣ x.val * y.val - 1 := by
  have hxv := bigint_val_eq hx
  have hmv := bigint_val_eq hmc
  have hma := bigint_natAbs_val hmc
  have hxa := bigint_natAbs_val hx
  have hg : Int.gcd x.val m.val = Nat.gcd (NB.val x.mag) (NB.val m.mag) := by
    rw [← hma, ← hxa]; rfl
  have hMpos : 0 < NB.val m.mag := by rw [← hma]; omega
  unfold BigInt.modinv
  obtain ⟨r0, e0, hiff, hprop⟩ := modinvU_spec (NB.val x.mag) (NB.val m.mag) (by omega)
  rw [e0, hg]
  generalize NB.val x.mag = A at *
  generalize NB.val m.mag = M at *
  cases r0 with
  | none => exact ⟨none, rfl, by simpa using hiff, by intro y hy; cases hy⟩
  | some t =>
    obtain ⟨htM, hat⟩ := hprop t rfl
    have hg1 : Nat.gcd A M = 1 := hiff.mp rfl
    simp only []
    -- (M : ℤ) ∣ A t - 1
    have hdvd : (M : Int) ∣ (A : Int) * t - 1 := by
      have h1 : A * t ≡ 1 [MOD M] := hat
      have := (Nat.modEq_iff_dvd.mp h1.symm)
      push_cast at this
      exact this
    have hmdvd : ∀ z : Int, (M : Int) ∣ z → m.val ∣ z := by
      intro z hz
      rw [hmv]; split
      · exact Int.neg_dvd.mpr hz
      · exact hz
    by_cases ht0 : t = 0
    · subst ht0
      simp only [if_true]
      refine ⟨some ⟨.nosign, []⟩, rfl, by simp [hg1], ?_⟩
      intro y hy; cases hy
      have hy0 : (⟨.nosign, []⟩ : BigInt).val = 0 := rfl
      rw [hy0]
      refine ⟨by decide, ?_, ?_⟩
      · split <;> omega
      · simp only [Int.mul_zero]
        apply hmdvd
        simpa using hdvd
    · simp only [ht0, if_false]
      have htm : t % M = t := Nat.mod_eq_of_lt htM
      obtain ⟨s, mag, h1, h2⟩ :=
        signPlace_spec (decide (x.sign = .minus)) (decide (m.sign = .minus)) M t hMpos (by rw [htm]; exact ht0)
      rw [htm] at h1
      rw [h1]
      simp only []
      refine ⟨_, rfl, by simp [hg1], ?_⟩
      intro y hy
      simp only [Option.some.injEq] at hy
      subst hy
      rw [h2]
      refine ⟨bigint_ofInt_canon _, ?_, ?_⟩
      · rw [bigint_ofInt_val, hmv]
        by_cases hms : m.sign = .minus
        · simp only [hms, decide_true, if_true]
          have hneg : ¬ (0 < -(M : Int)) := by omega
          simp only [hneg, if_false]
          generalize (if decide (x.sign = Sign.minus) = true then -(t : Int) else (t : Int)) = a
          have := Int.neg_fmod_neg (-a) (M : Int)
          rw [neg_neg] at this
          rw [this]
          have h1 := Int.fmod_nonneg_of_pos (-a) (show (0 : Int) < M by omega)
          have h2 := Int.fmod_lt_of_pos (-a) (show (0 : Int) < M by omega)
          omega
        · simp only [hms, decide_false, Bool.false_eq_true, if_false]
          have hpos : (0 : Int) < M := by omega
          simp only [hpos, if_true]
          exact ⟨Int.fmod_nonneg_of_pos _ hpos, Int.fmod_lt_of_pos _ hpos⟩
      · rw [bigint_ofInt_val]
        rw [← hmv]
        generalize ha : (if decide (x.sign = Sign.minus) = true then -(t : Int) else (t : Int)) = a
        -- y = a - m * k
        rw [Int.fmod_def]
        have hxa' : x.val * a = (A : Int) * t := by
          rw [hxv, ← ha]; split <;> ring
        have : x.val * (a - m.val * a.fdiv m.val) - 1 = ((A : Int) * t - 1) - m.val * (x.val * a.fdiv m.val) := by
          rw [← hxa']; ring
        rw [this]
        exact Int.dvd_sub (hmdvd _ hdvd) (Dvd.intro _ rfl)

end NB
