/- helper lemmas for NB.Model.Radix (C06): radix tables, digit emission, the output loops -/
import NB.Lemmas.Base
import NB.Lemmas.Canon
import NB.Model.Radix
import Mathlib.Data.Nat.Digits.Defs
import Mathlib.Tactic.Ring
import Mathlib.Tactic.Linarith
namespace NB.Radix
open NB

/-! ### the radix table -/

set_option maxRecDepth 100000 in
/-- every entry of `generate_radix_bases(big_digit::MAX)` for a radix that is not a power of two is
    `(radix^power, power)` with `radix^power ≤ MAX < radix^(power+1)` (checked on the computed table) -/
theorem radix_base_table : ∀ r, r < 256 → 3 ≤ r → isPow2 r = false →
    (radixBaseEntry (B - 1) r).1 = r ^ (radixBaseEntry (B - 1) r).2 ∧
    (radixBaseEntry (B - 1) r).1 ≤ B - 1 ∧ B - 1 < (radixBaseEntry (B - 1) r).1 * r ∧
    1 ≤ (radixBaseEntry (B - 1) r).2 := by
  decide +kernel

/-- radices in 2..256 that are not powers of two are in 3..255 -/
theorem not_pow2_range {r : Nat} (h2 : 2 ≤ r) (h256 : r ≤ 256) (hp : isPow2 r = false) : 3 ≤ r ∧ r < 256 := by
  refine ⟨?_, ?_⟩
  · rcases Nat.lt_or_ge r 3 with h | h
    · have : r = 2 := by omega
      subst this; exact absurd hp (by decide)
    · exact h
  · rcases Nat.lt_or_ge r 256 with h | h
    · exact h
    · have : r = 256 := by omega
      subst this; exact absurd hp (by decide)

theorem getRadixBase_ok {r : Nat} (h2 : 2 ≤ r) (h256 : r ≤ 256) (hp : isPow2 r = false) :
    ∃ base power, getRadixBase r = .ok (base, power) ∧ base = r ^ power ∧ base < B ∧ B ≤ base * r ∧ 1 ≤ power := by
  obtain ⟨h3, hlt⟩ := not_pow2_range h2 h256 hp
  obtain ⟨e1, e2, e3, e4⟩ := radix_base_table r hlt h3 hp
  refine ⟨(radixBaseEntry (B - 1) r).1, (radixBaseEntry (B - 1) r).2, ?_, e1, ?_, ?_, e4⟩
  · unfold getRadixBase; rw [if_pos (by omega)]
  · have : 0 < B := B_pos; omega
  · omega

/-! ### power-of-two radices -/

theorem log2_le_of_le {v : Nat} (h1 : 1 ≤ v) (h : v ≤ 256) : Nat.log2 v ≤ 8 := by
  have hv : v ≠ 0 := by omega
  have : Nat.log2 v < 9 := (Nat.log2_lt hv).2 (by omega)
  omega

theorem ilog2_eq {v : Nat} (h1 : 1 ≤ v) (h : v ≤ 256) : ilog2 v = Nat.log2 v := by
  have := log2_le_of_le h1 h
  unfold ilog2 fls U8
  rw [if_neg (by omega)]
  omega

theorem pow2_bits {r : Nat} (h2 : 2 ≤ r) (h256 : r ≤ 256) (hp : isPow2 r = true) :
    r = 2 ^ ilog2 r ∧ 1 ≤ ilog2 r ∧ ilog2 r ≤ 8 := by
  rw [ilog2_eq (by omega) h256]
  have hr : r = 2 ^ Nat.log2 r := by simpa [isPow2] using hp
  refine ⟨hr, ?_, log2_le_of_le (by omega) h256⟩
  rcases Nat.eq_zero_or_pos (Nat.log2 r) with h0 | h0
  · rw [h0] at hr; omega
  · exact h0

/-! ### emitN and positional digits -/

theorem emitN_length (r k x : Nat) : (emitN r k x).length = k := by
  induction k generalizing x with
  | zero => rfl
  | succ k ih => simp [emitN, ih]

theorem emitN_lt {r : Nat} (h2 : 2 ≤ r) (k x : Nat) : ∀ d ∈ emitN r k x, d < r := by
  induction k generalizing x with
  | zero => intro d hd; cases hd
  | succ k ih =>
    intro d hd
    simp only [emitN, List.mem_cons] at hd
    rcases hd with rfl | hd
    · exact Nat.lt_of_le_of_lt (Nat.mod_le _ _) (Nat.mod_lt _ (by omega))
    · exact ih _ d hd

/-- the key step of every output loop: a zero-padded chunk followed by the digits of the quotient -/
theorem digits_emitN {r : Nat} (h2 : 2 ≤ r) (h256 : r ≤ 256) :
    ∀ (k x q : Nat), x < r ^ k → 0 < q → Nat.digits r (x + r ^ k * q) = emitN r k x ++ Nat.digits r q := by
  intro k
  induction k with
  | zero =>
    intro x q hx _
    have : x = 0 := by simpa using hx
    subst this; simp [emitN]
  | succ k ih =>
    intro x q hx hq
    have hrpos : 0 < r := by omega
    have hpos : 0 < x + r ^ (k + 1) * q := by
      have : 0 < r ^ (k + 1) * q := Nat.mul_pos (Nat.pow_pos hrpos) hq
      omega
    rw [Nat.digits_def' (by omega) hpos]
    have e : x + r ^ (k + 1) * q = x + r * (r ^ k * q) := by ring
    have hmod : (x + r ^ (k + 1) * q) % r = x % r := by
      rw [e]; exact Nat.add_mul_mod_self_left x r _
    have hdiv : (x + r ^ (k + 1) * q) / r = x / r + r ^ k * q := by
      rw [e]; exact Nat.add_mul_div_left x _ hrpos
    have hxr : x / r < r ^ k := by
      apply Nat.div_lt_of_lt_mul
      rw [pow_succ] at hx; rw [Nat.mul_comm]; exact hx
    rw [hmod, hdiv, ih (x / r) q hxr hq]
    have hlt : x % r < U8 := Nat.lt_of_lt_of_le (Nat.mod_lt _ hrpos) (by unfold U8; omega)
    simp [emitN, Nat.mod_eq_of_lt hlt]

theorem emitN_mod (r k x : Nat) : emitN r k (x % r ^ k) = emitN r k x := by
  induction k generalizing x with
  | zero => rfl
  | succ k ih =>
    have h1 : x % r ^ (k + 1) % r = x % r :=
      Nat.mod_mod_of_dvd x (Dvd.intro_left (r ^ k) rfl)
    have h2 : x % r ^ (k + 1) / r = x / r % r ^ k := by
      rw [pow_succ, Nat.mul_comm]; exact Nat.mod_mul_right_div_self x r (r ^ k)
    simp only [emitN, h1, h2, ih]

theorem emitN_add (r a b x : Nat) : emitN r (a + b) x = emitN r a x ++ emitN r b (x / r ^ a) := by
  induction a generalizing x with
  | zero => simp [emitN]
  | succ a ih =>
    have : a + 1 + b = (a + b) + 1 := by omega
    rw [this]
    simp only [emitN, List.cons_append, ih]
    rw [Nat.div_div_eq_div_mul, pow_succ, Nat.mul_comm]

theorem emitChunks_eq (r power : Nat) : ∀ (k x : Nat),
    emitChunks r power (r ^ power) k x = emitN r (k * power) x := by
  intro k
  induction k with
  | zero => intro x; simp [emitChunks, emitN]
  | succ k ih =>
    intro x
    have : (k + 1) * power = power + k * power := by ring
    rw [this, emitN_add, emitChunks, emitN_mod, ih]

theorem lastDigits_spec {r : Nat} (h2 : 2 ≤ r) (h256 : r ≤ 256) (x : Nat) :
    lastDigits r x = .ok (Nat.digits r x) := by
  induction x using Nat.strong_induction_on with
  | _ x ih =>
    rw [lastDigits]
    by_cases hx : x = 0
    · simp [hx]
    · have hr0 : r ≠ 0 := by omega
      have hr1 : r ≠ 1 := by omega
      simp only [hx, hr0, hr1, dite_false]
      rw [ih (x / r) (Nat.div_lt_self (by omega) (by omega))]
      have hlt : x % r < U8 := Nat.lt_of_lt_of_le (Nat.mod_lt _ (by omega)) (by unfold U8; omega)
      have e := Nat.digits_def' (b := r) (n := x) (by omega) (by omega)
      rw [e, Nat.mod_eq_of_lt hlt]

theorem slowLoop_spec {r power base : Nat} (h2 : 2 ≤ r) (h256 : r ≤ 256) (hb : base = r ^ power)
    (hbB : base < B) (hp : 1 ≤ power) (x : Nat) (hx : x ≠ 0) :
    slowLoop r power base x = .ok (Nat.digits r x) := by
  have hb2 : 2 ≤ base := by
    rw [hb]
    calc 2 ≤ r := h2
      _ = r ^ 1 := (pow_one r).symm
      _ ≤ r ^ power := Nat.pow_le_pow_right (by omega) hp
  induction x using Nat.strong_induction_on with
  | _ x ih =>
    rw [slowLoop]
    by_cases hB : B ≤ x
    · have hb0 : base ≠ 0 := by omega
      have hb1 : base ≠ 1 := by omega
      simp only [hB, hb0, hb1, dite_true, dite_false]
      have hq : 0 < x / base := Nat.div_pos (by omega) (by omega)
      rw [ih (x / base) (Nat.div_lt_self (by omega) (by omega)) (by omega)]
      have hdec : x = x % base + r ^ power * (x / base) := by
        rw [← hb]; exact (Nat.mod_add_div x base).symm
      have hlt : x % base < r ^ power := by rw [← hb]; exact Nat.mod_lt _ (by omega)
      conv_rhs => rw [hdec, digits_emitN h2 h256 power _ _ hlt hq]
    · simp only [hB, dite_false, hx, if_false]
      exact lastDigits_spec h2 h256 x

theorem bigLoop_spec {r power base bigBase bigPower : Nat} (h2 : 2 ≤ r) (h256 : r ≤ 256)
    (hb : base = r ^ power) (hbB : base < B) (hp : 1 ≤ power)
    (hbb : bigBase = base ^ bigPower) (hbp : 1 ≤ bigPower) (x : Nat) (hx : x ≠ 0) :
    bigLoop r power base bigBase bigPower x = .ok (Nat.digits r x) := by
  have hb2 : 2 ≤ base := by
    rw [hb]
    calc 2 ≤ r := h2
      _ = r ^ 1 := (pow_one r).symm
      _ ≤ r ^ power := Nat.pow_le_pow_right (by omega) hp
  have hbb2 : 2 ≤ bigBase := by
    rw [hbb]
    calc 2 ≤ base := hb2
      _ = base ^ 1 := (pow_one base).symm
      _ ≤ base ^ bigPower := Nat.pow_le_pow_right (by omega) hbp
  have hbbr : bigBase = r ^ (bigPower * power) := by rw [hbb, hb, ← pow_mul, Nat.mul_comm]
  induction x using Nat.strong_induction_on with
  | _ x ih =>
    rw [bigLoop]
    by_cases hlt : bigBase < x
    · have hb0 : bigBase ≠ 0 := by omega
      have hb1 : bigBase ≠ 1 := by omega
      have hbase0 : base ≠ 0 := by omega
      simp only [hlt, hb0, hb1, hbase0, dite_true, dite_false, if_false]
      have hq : 0 < x / bigBase := Nat.div_pos (by omega) (by omega)
      rw [ih (x / bigBase) (Nat.div_lt_self (by omega) (by omega)) (by omega)]
      have hdec : x = x % bigBase + r ^ (bigPower * power) * (x / bigBase) := by
        rw [← hbbr]; exact (Nat.mod_add_div x bigBase).symm
      have hlt' : x % bigBase < r ^ (bigPower * power) := by rw [← hbbr]; exact Nat.mod_lt _ (by omega)
      conv_rhs => rw [hdec, digits_emitN h2 h256 _ _ _ hlt' hq]
      rw [hb, emitChunks_eq]
    · simp only [hlt, dite_false]
      exact slowLoop_spec h2 h256 hb hbB hp x hx

/-! ### limb counts and the squaring loop -/

theorem nlimbs_le_iff (n k : Nat) : nlimbs n ≤ k ↔ n < B ^ k := by
  unfold nlimbs
  constructor
  · intro h
    have h1 := val_lt (ofNat_digitsOk n)
    rw [ofNat_val] at h1
    exact Nat.lt_of_lt_of_le h1 (Nat.pow_le_pow_right B_pos h)
  · intro h
    by_contra hc
    have hne : ofNat n ≠ [] := by intro e; rw [e] at hc; simp at hc
    have h1 := canon_val_ge (ofNat_canon n) hne
    rw [ofNat_val] at h1
    have : B ^ k ≤ B ^ ((ofNat n).length - 1) := Nat.pow_le_pow_right B_pos (by omega)
    omega

/-- `digits.data.len() > 1` is `B ≤ digits` -/
theorem nlimbs_gt_one_iff (n : Nat) : 1 < nlimbs n ↔ B ≤ n := by
  have := nlimbs_le_iff n 1
  rw [pow_one] at this
  omega

theorem nlimbs_sq {b : Nat} (h : B ≤ b * b) : nlimbs b + 1 ≤ nlimbs (b * b) := by
  by_contra hc
  have h1 : nlimbs (b * b) ≤ nlimbs b := by omega
  rw [nlimbs_le_iff] at h1
  -- b ≥ B^(L-1), so b*b ≥ B^(2L-2)
  rcases Nat.lt_or_ge (nlimbs b) 2 with hL | hL
  · have : B ^ nlimbs b ≤ B ^ 1 := Nat.pow_le_pow_right B_pos (by omega)
    rw [pow_one] at this; omega
  · have hge : B ^ (nlimbs b - 1) ≤ b := by
      by_contra hlt
      have := (nlimbs_le_iff b (nlimbs b - 1)).2 (by omega)
      omega
    have : B ^ (nlimbs b - 1) * B ^ (nlimbs b - 1) ≤ b * b := Nat.mul_le_mul hge hge
    rw [← pow_add] at this
    have : B ^ nlimbs b ≤ B ^ (nlimbs b - 1 + (nlimbs b - 1)) := Nat.pow_le_pow_right B_pos (by omega)
    omega

theorem squareLoop_spec (t : Nat) : ∀ (fuel bb bp : Nat), B ≤ bb * bb → t ≤ fuel + nlimbs bb →
    ∃ j, squareLoop t fuel bb bp = .ok (bb ^ (2 ^ j), bp * 2 ^ j) := by
  intro fuel
  induction fuel with
  | zero =>
    intro bb bp _ ht
    refine ⟨0, ?_⟩
    unfold squareLoop
    rw [if_neg (by omega)]; simp
  | succ f ih =>
    intro bb bp hB ht
    unfold squareLoop
    by_cases hlt : nlimbs bb < t
    · rw [if_pos hlt]
      have hsq := nlimbs_sq hB
      have hB' : B ≤ bb * bb * (bb * bb) := by
        have : 1 ≤ bb * bb := by have := B_pos; omega
        calc B ≤ bb * bb := hB
          _ = bb * bb * 1 := (Nat.mul_one _).symm
          _ ≤ bb * bb * (bb * bb) := Nat.mul_le_mul_left _ this
      obtain ⟨j, hj⟩ := ih (bb * bb) (bp * 2) hB' (by omega)
      refine ⟨j + 1, ?_⟩
      show squareLoop t f (bb * bb) (bp * 2) = _
      rw [hj]
      have e1 : (bb * bb) ^ 2 ^ j = bb ^ 2 ^ (j + 1) := by
        rw [← pow_two, ← pow_mul, pow_succ, Nat.mul_comm]
      have e2 : bp * 2 * 2 ^ j = bp * 2 ^ (j + 1) := by rw [pow_succ]; ring
      rw [e1, e2]
    · rw [if_neg hlt]
      exact ⟨0, by simp⟩

theorem toRadixDigitsLe_spec (P : Params) {r : Nat} (h2 : 2 ≤ r) (h256 : r ≤ 256) (hp : isPow2 r = false)
    (u : List Nat) (hu : val u ≠ 0) :
    toRadixDigitsLe P u r = .ok (Nat.digits r (val u)) := by
  obtain ⟨base, power, hg, hb, hbB, hBr, hpw⟩ := getRadixBase_ok h2 h256 hp
  unfold toRadixDigitsLe
  rw [hg]
  dsimp only
  split
  · -- big-base path
    have hsq : B ≤ base * base := by
      have : r ≤ base := by
        rw [hb]
        calc r = r ^ 1 := (pow_one r).symm
          _ ≤ r ^ power := Nat.pow_le_pow_right (by omega) hpw
      calc B ≤ base * r := hBr
        _ ≤ base * base := Nat.mul_le_mul_left _ this
    obtain ⟨j, hj⟩ := squareLoop_spec (Nat.sqrt u.length) (BITS * Nat.sqrt u.length + 1) base 1 hsq
      (by unfold BITS; omega)
    rw [hj]
    dsimp only
    exact bigLoop_spec h2 h256 hb hbB hpw (by rw [Nat.one_mul]) (by rw [Nat.one_mul]; exact Nat.one_le_two_pow) _ hu
  · exact slowLoop_spec h2 h256 hb hbB hpw _ hu

/-! ### output, exact-width power-of-two radices -/

theorem mask_eq (bits : Nat) : (1 <<< bits) - 1 = 2 ^ bits - 1 := by
  rw [Nat.shiftLeft_eq, Nat.one_mul]

theorem emitBits_eq (bits : Nat) : ∀ (n x : Nat),
    emitBits bits (2 ^ bits - 1) n x = emitN (2 ^ bits) n x := by
  intro n
  induction n with
  | zero => intro x; rfl
  | succ n ih =>
    intro x
    simp only [emitBits, emitN, ih, Nat.and_two_pow_sub_one_eq_mod, Nat.shiftRight_eq_div_pow]

theorem lastBits_spec {bits : Nat} (h1 : 1 ≤ bits) (h8 : bits ≤ 8) (x : Nat) :
    lastBits bits ((1 <<< bits) - 1) x = .ok (Nat.digits (2 ^ bits) x) := by
  have hr2 : 2 ≤ 2 ^ bits := by
    calc 2 = 2 ^ 1 := rfl
      _ ≤ 2 ^ bits := Nat.pow_le_pow_right (by omega) h1
  have hr256 : 2 ^ bits ≤ 256 := by
    calc 2 ^ bits ≤ 2 ^ 8 := Nat.pow_le_pow_right (by omega) h8
      _ = 256 := rfl
  induction x using Nat.strong_induction_on with
  | _ x ih =>
    rw [lastBits]
    by_cases hx : x = 0
    · simp [hx]
    · have hb0 : bits ≠ 0 := by omega
      simp only [hx, hb0, dite_false]
      have hlt : x >>> bits < x := by
        rw [Nat.shiftRight_eq_div_pow]
        exact Nat.div_lt_self (by omega) (by omega)
      rw [ih _ hlt, mask_eq, Nat.and_two_pow_sub_one_eq_mod, Nat.shiftRight_eq_div_pow]
      have hm : x % 2 ^ bits < U8 := Nat.lt_of_lt_of_le (Nat.mod_lt _ (by omega)) (by unfold U8; omega)
      have e := Nat.digits_def' (b := 2 ^ bits) (n := x) (by omega) (by omega)
      rw [e, Nat.mod_eq_of_lt hm]

theorem bitwiseLoop_spec {bits dpb : Nat} (h1 : 1 ≤ bits) (h8 : bits ≤ 8) (hB : B = (2 ^ bits) ^ dpb) :
    ∀ (u : List Nat), Canon u → u ≠ [] →
    bitwiseLoop bits ((1 <<< bits) - 1) dpb u = .ok (Nat.digits (2 ^ bits) (val u)) := by
  have hr2 : 2 ≤ 2 ^ bits := by
    calc 2 = 2 ^ 1 := rfl
      _ ≤ 2 ^ bits := Nat.pow_le_pow_right (by omega) h1
  have hr256 : 2 ^ bits ≤ 256 := by
    calc 2 ^ bits ≤ 2 ^ 8 := Nat.pow_le_pow_right (by omega) h8
      _ = 256 := rfl
  intro u
  induction u with
  | nil => intro _ h; exact absurd rfl h
  | cons d ds ih =>
    intro hc _
    cases ds with
    | nil =>
      simp only [bitwiseLoop, val, Nat.mul_zero, Nat.add_zero]
      exact lastBits_spec h1 h8 d
    | cons e es =>
      have hct := canon_tail hc
      have hne : (e :: es) ≠ [] := by simp
      rw [bitwiseLoop, ih hct hne]
      · have hd : d < (2 ^ bits) ^ dpb := by rw [← hB]; exact hc.1 d (by simp)
        have hq : 0 < val (e :: es) := canon_val_pos hct hne
        rw [mask_eq, emitBits_eq, val_cons d (e :: es), hB, digits_emitN hr2 hr256 dpb d _ hd hq]
      · intro h; cases h

theorem toBitwiseDigitsLe_spec {bits : Nat} (h1 : 1 ≤ bits) (h8 : bits ≤ 8) (hdiv : BITS % bits = 0)
    (u : List Nat) (hc : Canon u) (hne : u ≠ []) :
    toBitwiseDigitsLe u bits = .ok (Nat.digits (2 ^ bits) (val u)) := by
  unfold toBitwiseDigitsLe
  rw [if_neg (by omega)]
  apply bitwiseLoop_spec h1 h8 _ u hc hne
  rw [← pow_mul, Nat.mul_div_cancel' (Nat.dvd_of_mod_eq_zero hdiv)]
  rfl

end NB.Radix
