/- helper lemmas for C12: the two loops of `pow_impl!` -/
import NB.Model.Pow
import Mathlib.Tactic.Ring
import Mathlib.Tactic.Linarith
import Mathlib.Algebra.Order.Ring.Pow
import Mathlib.Algebra.Ring.Parity
namespace NB.Pow

theorem lt_two_pow_powFuel (e : Nat) : e < 2 ^ powFuel e := by
  unfold powFuel
  split
  · subst_vars; simp
  · exact Nat.lt_log2_self

theorem sq_pow_half (b e : Nat) (h : e % 2 = 0) : (b * b) ^ (e / 2) = b ^ e := by
  rw [← pow_two, ← pow_mul]
  congr 1; omega

theorem pow_split (b e : Nat) : b ^ e = b ^ (e % 2) * (b * b) ^ (e / 2) := by
  rw [← pow_two, ← pow_mul, ← pow_add]
  congr 1; omega

/-- trailing-zero squaring phase: returns an odd exponent, `base'^exp' = base^exp` -/
theorem sqLoop_spec : ∀ (fuel base exp : Nat), exp ≠ 0 → exp < 2 ^ fuel →
    ∃ b' e', sqLoop fuel base exp = .ok (b', e') ∧ e' % 2 = 1 ∧ e' ≤ exp ∧ b' ^ e' = base ^ exp := by
  intro fuel
  induction fuel with
  | zero => intro base exp h0 h; simp at h; omega
  | succ fuel ih =>
    intro base exp h0 h
    simp only [sqLoop, Nat.and_one_is_mod, Nat.shiftRight_one]
    by_cases hc : exp % 2 = 0
    · simp only [hc, if_true]
      have hp : 2 ^ (fuel + 1) = 2 * 2 ^ fuel := by rw [pow_succ]; ring
      obtain ⟨b', e', he, ho, hle, hv⟩ := ih (base * base) (exp / 2) (by omega) (by omega)
      exact ⟨b', e', he, ho, by omega, by rw [hv, sq_pow_half base exp hc]⟩
    · simp only [hc, if_false]
      exact ⟨base, exp, rfl, by omega, le_refl _, rfl⟩

/-- accumulate phase: invariant `acc · (base²)^(exp/2)` -/
theorem accLoop_spec : ∀ (fuel base exp acc : Nat), exp ≠ 0 → exp < 2 ^ fuel →
    accLoop fuel base exp acc = .ok (acc * (base * base) ^ (exp / 2)) := by
  intro fuel
  induction fuel with
  | zero => intro base exp acc h0 h; simp at h; omega
  | succ fuel ih =>
    intro base exp acc h0 h
    simp only [accLoop, Nat.and_one_is_mod, Nat.shiftRight_one]
    by_cases hc : exp > 1
    · simp only [hc, if_true]
      have hp : 2 ^ (fuel + 1) = 2 * 2 ^ fuel := by rw [pow_succ]; ring
      rw [ih (base * base) (exp / 2) _ (by omega) (by omega)]
      congr 1
      rw [pow_split (base * base) (exp / 2)]
      by_cases hb : exp / 2 % 2 = 1
      · rw [if_pos hb, hb, pow_one]; ring
      · have : exp / 2 % 2 = 0 := by omega
        rw [if_neg hb, this, pow_zero]; ring
    · simp only [hc, if_false]
      have : exp / 2 = 0 := by omega
      rw [this]; simp

theorem powVV_ok (x e : Nat) : powVV x e = .ok (x ^ e) := by
  unfold powVV
  by_cases h0 : e = 0
  · subst h0; simp
  · simp only [h0, if_false]
    obtain ⟨b', e', he, ho, hle, hv⟩ := sqLoop_spec (powFuel e) x e h0 (lt_two_pow_powFuel e)
    rw [he]
    simp only
    by_cases h1 : e' = 1
    · subst h1; simp only [if_true]; rw [← hv, pow_one]
    · simp only [h1, if_false]
      rw [accLoop_spec (powFuel e) b' e' b' (by omega) (lt_of_le_of_lt hle (lt_two_pow_powFuel e))]
      congr 1
      rw [← hv, pow_split b' e', ho, pow_one]

theorem powPrim_ok (f : Form) (x e : Nat) : powPrim f x e = .ok (x ^ e) := by
  cases f <;> simp only [powPrim, powVR, powRR, powRV, powVV_ok] <;> split <;> simp_all

end NB.Pow
