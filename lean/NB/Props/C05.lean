/-
  C05 — Modular exponentiation and modular inverse are exact for every modulus.

  All theorems are about the model of the code paths (NB.Model.Monty: src/biguint/monty.rs at digit
  level; NB.Model.ModPow: src/biguint/power.rs `modpow`/`plain_modpow`, `BigUint::modinv`,
  `BigInt::modpow`, `BigInt::modinv` with the control flow of the source), which is compared with the
  real crate on every check run.

  Tier A (fully proved): `plain_modpow_spec`, `modinv_spec`, `modinv_zero_mod`, `bigint_modpow_spec`,
  `bigint_modinv_spec`, `bigint_modinv_zero_mod`.
  Tier B (fully proved as well — nothing is `_partial`): `inv_mod_alt_spec`, `add_mul_vvw_spec`,
  `sub_vv_spec` (the Hacker's-Delight borrow formula, by arithmetic on the top bits, no bit-blasting),
  `montgomery_spec` (loop invariant `T·B = T_prev + x·y_i + m·t`, `T < B^n + m`), `monty_modpow_spec`,
  and the unconditional top level `modpow_spec`.
  Every internal assertion / overflow site of the model (`assert_ne!(b & 1, 0)`, `t + 1`,
  `debug_assert_eq!(k0·b, 1)`, the operand-length assertion of `montgomery`, `powers[..]` indexing,
  `debug_assert_ne!(r, 0)`, the unsigned subtractions in `modinv` and in the sign placement) is an
  explicit `.error` outcome of the model; the theorems show that none of them is reachable for
  canonical inputs (each spec has the shape `… = .ok …`).

  Layer link: the BigUint operators that NB.Model.ModPow (and the non-Montgomery steps of NB.montyModpow) take as the
  mathematical `* % / - <` are replaced by their digit-vector models in NB.Model.ModPowD; NB.Props.C05D proves that
  digit-level model equal to the one specified here and transfers every theorem below to it.  The driver runs the
  digit-level model.
-/
import NB.Lemmas.ModPow
import NB.Lemmas.Monty
import NB.Model.AsmParams
namespace NB

/-- the extracted window width `w` must be positive, divide the digit width (the `while j < BITS` loop then
    takes exactly `64 / w` windows out of every exponent digit and `yi <<= w` never shifts by the full width),
    keep the `1 << w`-entry table small, and agree with the extracted number of squarings per window -/
def Params.ValidMonty (P : Params) : Prop :=
  0 < P.window ∧ P.window ∣ 64 ∧ P.window ≤ 16 ∧ P.squarings = P.window
instance (P : Params) : Decidable P.ValidMonty := by unfold Params.ValidMonty; infer_instance

/-- proof obligation over the generated parameters (re-elaborated on every run) -/
theorem gen_params_valid_monty : NB.Gen.P.ValidMonty := by decide

/-! ## Tier A -/

/-- `plain_modpow(b, e, m)` (zero-digit skipping, trailing-zero stripping, early exit, last-digit
    handling) returns `b^e mod m`; for `e = 0` it returns `1` whatever the modulus (it is only
    called with an even modulus, where `1 = 1 mod m`). -/
theorem plain_modpow_spec (b : Nat) (e : List Nat) (m : Nat) (he : Canon e) (hm : m ≠ 0) :
    plainModpow b e m = .ok (if val e = 0 then 1 else b ^ val e % m) :=
  plainModpow_spec b e m he hm

/-- on every modulus `≥ 2` (in particular every even one) `plain_modpow` is exactly `b^e mod m` -/
theorem plain_modpow_spec_ge_two (b : Nat) (e : List Nat) (m : Nat) (he : Canon e) (hm : 2 ≤ m) :
    plainModpow b e m = .ok (b ^ val e % m) := by
  rw [plainModpow_spec b e m he (by omega)]
  by_cases h : val e = 0
  · simp [h, Nat.mod_eq_of_lt hm]
  · simp [h]

theorem plain_modpow_zero_mod (b : Nat) (e : List Nat) : plainModpow b e 0 = .error .zeromod := by
  simp [plainModpow]

/-- `BigUint::modinv`: returns `Some x` exactly when `gcd(a, m) = 1`; then `x ∈ [0, m)` and
    `a·x ≡ 1 (mod m)`; never panics for `m ≠ 0`. -/
theorem modinv_spec (a m : Nat) (hm : m ≠ 0) :
    ∃ r, modinvU a m = .ok r ∧ (r.isSome ↔ Nat.gcd a m = 1) ∧
      ∀ x, r = some x → x < m ∧ a * x % m = 1 % m :=
  modinvU_spec a m hm

theorem modinv_zero_mod (a : Nat) : modinvU a 0 = .error .zeromod := modinvU_zero a

/-! ## Tier B: Montgomery arithmetic at digit level -/

/-- `inv_mod_alt(b)` for an odd digit `b`: no assertion fires, `t + 1` never overflows, and the result
    `k` satisfies `k·b ≡ −1 (mod 2^64)` -/
theorem inv_mod_alt_spec (b : Nat) (hbB : b < B) (hb : b % 2 = 1) :
    ∃ k, invModAlt b = .ok k ∧ k < B ∧ (k * b + 1) % B = 0 :=
  invModAlt_spec b hbB hb

/-- `add_mul_vvw(z, x, y)` with carry-in `c`: `z' + B^n·carry = z + x·y + c` exactly; the carry word
    never overflows (the `wadd` inside is exact) -/
theorem add_mul_vvw_spec (z x : List Nat) (y c : Nat) (hl : x.length = z.length) (hz : DigitsOk z)
    (hx : DigitsOk x) (hy : y < B) (hc : c < B) :
    (addMulVVW z x y c).1.length = z.length ∧ DigitsOk (addMulVVW z x y c).1 ∧ (addMulVVW z x y c).2 < B ∧
    val (addMulVVW z x y c).1 + B ^ z.length * (addMulVVW z x y c).2 = val z + val x * y + c :=
  addMulVVW_spec z x y c hl hz hx hy hc

/-- `sub_vv(z, x, y)` with the Hacker's-Delight borrow: `z' + y + c = x + B^n·borrow`, borrow ∈ {0,1} -/
theorem sub_vv_spec (z x y : List Nat) (c : Nat) (hx : x.length = z.length) (hy : y.length = z.length)
    (dx : DigitsOk x) (dy : DigitsOk y) (hc : c ≤ 1) :
    (subVV z x y c).1.length = z.length ∧ DigitsOk (subVV z x y c).1 ∧ (subVV z x y c).2 ≤ 1 ∧
    val (subVV z x y c).1 + val y + c = val x + B ^ z.length * (subVV z x y c).2 :=
  subVV_spec z x y c hx hy dx dy hc

/-- almost-Montgomery multiplication: for operands of `n` proper digits (x, y need NOT be `< m`), an odd
    modulus and `k·m[0] ≡ −1 (mod B)`, `montgomery` does not hit its assertion and returns `n` proper
    digits — hence `z < B^n` — with `z·B^n ≡ x·y (mod m)`. -/
theorem montgomery_spec (x y m : List Nat) (k n m0 : Nat) (mt : List Nat)
    (hm : m = m0 :: mt) (hk : (k * m0 + 1) % B = 0)
    (hxl : x.length = n) (hyl : y.length = n) (hml : m.length = n)
    (hx : DigitsOk x) (hy : DigitsOk y) (hmo : DigitsOk m) :
    ∃ z, montgomery x y m k n = .ok z ∧ z.length = n ∧ DigitsOk z ∧ val z < B ^ n ∧
      val z * B ^ n ≡ val x * val y [MOD val m] := by
  obtain ⟨z, e, l, d, c⟩ := montgomery_core x y m k n m0 mt hm hk hxl hyl hml hx hy hmo
  exact ⟨z, e, l, d, by rw [← l]; exact val_lt d, c⟩

/-- `monty_modpow(x, y, m)` for an odd modulus returns the canonical digits of `x^y mod m`
    (padding, `rr`, the `2^w`-entry table, `w`-bit windows from the top with `w` squarings each, skipped
    squarings on the first window, conversion out, last reduction; `w = P.window`: 4 in the original source) -/
theorem monty_modpow_spec (P : Params) (hP : P.ValidMonty) (x y m : List Nat) (m0 : Nat) (mt : List Nat)
    (hm : m = m0 :: mt) (hodd : m0 % 2 = 1) (hx : DigitsOk x) (hy : DigitsOk y) (hmd : DigitsOk m) :
    montyModpow P x y m = .ok (ofNat (val x ^ val y % val m)) :=
  montyModpow_spec P hP.1 hP.2.1 hP.2.2.2 x y m m0 mt hm hodd hx hy hmd

/-! ## top level -/

/-- `BigUint::modpow`: for every non-zero modulus, odd (Montgomery) or even (square-and-multiply),
    the result is the canonical representation of `b^e mod m` -/
theorem modpow_spec (P : Params) (hP : P.ValidMonty) (b e m : List Nat) (hb : Canon b) (he : Canon e)
    (hm : Canon m) (hm0 : val m ≠ 0) :
    modpowU P b e m = .ok (ofNat (val b ^ val e % val m)) := by
  unfold modpowU
  cases m with
  | nil => simp [val] at hm0
  | cons m0 mt =>
    simp only [reduceCtorEq, if_false, isOddU]
    by_cases hodd : m0 % 2 = 1
    · simp only [hodd, decide_true, if_true]
      exact montyModpow_spec P hP.1 hP.2.1 hP.2.2.2 b e (m0 :: mt) m0 mt rfl hodd hb.1 he.1 hm.1
    · simp only [hodd, decide_false, Bool.false_eq_true, if_false]
      have hev : val (m0 :: mt) % 2 = 0 := by
        simp only [val]
        have : B * val mt = 2 * (9223372036854775808 * val mt) := by unfold B; ring
        rw [this]; omega
      rw [plain_modpow_spec_ge_two (val b) e _ he (by omega)]

theorem modpow_zero_mod (P : Params) (b e : List Nat) : modpowU P b e [] = .error .zeromod := by
  simp [modpowU]

/-- `BigInt::modpow`: negative exponent → panic, zero modulus → panic, otherwise the floor-mod
    representative of `b^e` carrying the sign of `m` (`Int.fmod`) -/
theorem bigint_modpow_spec (P : Params) (hP : P.ValidMonty) (b e m : BigInt) (hb : b.Canon) (he : e.Canon)
    (hm : m.Canon) :
    BigInt.modpow P b e m =
      if e.val < 0 then .error .negexp
      else if m.val = 0 then .error .zeromod
      else .ok (BigInt.ofInt (Int.fmod (b.val ^ e.val.toNat) m.val)) :=
  bigint_modpow_of P b e m hb he hm (fun h0 => modpow_spec P hP b.mag e.mag m.mag hb.1 he.1 hm.1 h0)

/-- `BigInt::modinv` for `m ≠ 0`: `Some y` exactly when `gcd(a, m) = 1`; then `y` is canonical, lies in the
    documented interval `[0, m)` (for `m > 0`) or `(m, 0]` (for `m < 0`), and `a·y ≡ 1 (mod m)` -/
theorem bigint_modinv_spec (a m : BigInt) (ha : a.Canon) (hm : m.Canon) (hm0 : m.val ≠ 0) :
    ∃ r, BigInt.modinv a m = .ok r ∧ (r.isSome ↔ Int.gcd a.val m.val = 1) ∧
      ∀ y, r = some y → y.Canon ∧
        (if 0 < m.val then 0 ≤ y.val ∧ y.val < m.val else m.val < y.val ∧ y.val ≤ 0) ∧
        m.val ∣ a.val * y.val - 1 :=
  bigint_modinv_nonzero a m ha hm hm0

theorem bigint_modinv_zero_mod (a m : BigInt) (hm : m.Canon) (hm0 : m.val = 0) :
    BigInt.modinv a m = .error .zeromod :=
  bigint_modinv_zero a m hm hm0

/-! ## non-vacuity: the hypotheses are satisfiable on non-trivial inputs -/

example : Canon [B - 1, B - 1, 1] ∧ val [B - 1, B - 1, 1] ≠ 0 := by decide
example : (⟨.minus, [5, 7]⟩ : BigInt).Canon := by decide
example : DigitsOk [B - 1, 3] ∧ (B - 1) % 2 = 1 := by decide
example : (3 * 6148914691236517205 + 1) % B = 0 := by decide

end NB
