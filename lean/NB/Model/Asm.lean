/-
  NB.Model.Asm — mini x86-64 interpreter for the instruction subset of the two inline-asm
  loops (import-free, executable).  This is *my* formalisation of that ISA subset and is in the
  trusted base: adc/sbb (register or memory source) add/subtract with CF and set CF/ZF; inc/dec
  leave CF unchanged and set ZF; lea and mov touch no flag; add/sub with an immediate set CF/ZF;
  jnz jumps when ZF = 0; setc writes CF; clc clears CF.

  Two memories: the buffer behind pointer register `aReg` (read/write, `la` digits) and the
  buffer behind `bReg` (read-only, `lb` digits).  Any access at an index ≥ the buffer length,
  any store through `bReg`, any access through another base register, and any write to a
  pointer register is a fault (`none`).
-/
import NB.Base
import NB.Model.AsmDefs
namespace NB.Asm

def upd (f : Nat → Nat) (i v : Nat) : Nat → Nat := fun j => if j = i then v else f j

structure St where
  regs : Nat → Nat
  cf : Bool
  zf : Bool
  a : Nat → Nat
  b : Nat → Nat

/-- static description of a run: which registers hold the two pointers, buffer lengths -/
structure Cfg where
  aReg : Nat
  bReg : Nat
  la : Nat
  lb : Nat

def b2n (c : Bool) : Nat := if c then 1 else 0

/-- read digit `j` behind pointer register `base`; `none` = fault (out of bounds or not a pointer) -/
def rd (k : Cfg) (s : St) (base j : Nat) : Option Nat :=
  if base = k.aReg then (if j < k.la then some (s.a j) else none)
  else if base = k.bReg then (if j < k.lb then some (s.b j) else none)
  else none

/-- `mov {dst}, [digit j behind base]` -/
def doLoad (k : Cfg) (s : St) (dst base j : Nat) : Option St :=
  if dst = k.aReg ∨ dst = k.bReg then none else
  match rd k s base j with
  | none => none
  | some v => some { s with regs := upd s.regs dst v }

/-- `mov [digit j behind base], {src}`: only through the `a` pointer -/
def doStore (k : Cfg) (s : St) (base j src : Nat) : Option St :=
  if base = k.aReg then
    if j < k.la then some { s with a := upd s.a j (s.regs src) } else none
  else none

/-- `adc {dst}, y` -/
def doAdc (k : Cfg) (s : St) (dst y : Nat) : Option St :=
  if dst = k.aReg ∨ dst = k.bReg then none else
  let t := s.regs dst + y + b2n s.cf
  some { s with regs := upd s.regs dst (t % B), cf := decide (B ≤ t), zf := decide (t % B = 0) }

/-- `sbb {dst}, y` -/
def doSbb (k : Cfg) (s : St) (dst y : Nat) : Option St :=
  if dst = k.aReg ∨ dst = k.bReg then none else
  let sub := y + b2n s.cf
  let r := if sub ≤ s.regs dst then s.regs dst - sub else s.regs dst + B - sub
  some { s with regs := upd s.regs dst r, cf := decide (s.regs dst < sub), zf := decide (r = 0) }

/-- one non-control instruction; `none` = fault -/
def step (k : Cfg) (i : Instr) (s : St) : Option St :=
  match i with
  | .clc => some { s with cf := false }
  | .load dst base idx off => doLoad k s dst base (s.regs idx + off)
  | .loadn dst base off => doLoad k s dst base off
  | .store base idx off src => doStore k s base (s.regs idx + off) src
  | .storen base off src => doStore k s base off src
  | .adc dst src => doAdc k s dst (s.regs src)
  | .sbb dst src => doSbb k s dst (s.regs src)
  | .adcm dst base idx off =>
    match rd k s base (s.regs idx + off) with
    | none => none
    | some y => doAdc k s dst y
  | .sbbm dst base idx off =>
    match rd k s base (s.regs idx + off) with
    | none => none
    | some y => doSbb k s dst y
  | .adcmn dst base off =>
    match rd k s base off with
    | none => none
    | some y => doAdc k s dst y
  | .sbbmn dst base off =>
    match rd k s base off with
    | none => none
    | some y => doSbb k s dst y
  | .inc r =>
    if r = k.aReg ∨ r = k.bReg then none else
    let v := (s.regs r + 1) % B
    some { s with regs := upd s.regs r v, zf := decide (v = 0) }
  | .dec r =>
    if r = k.aReg ∨ r = k.bReg then none else
    let v := (s.regs r + B - 1) % B
    some { s with regs := upd s.regs r v, zf := decide (v = 0) }
  | .lea dst src imm =>
    if dst = k.aReg ∨ dst = k.bReg then none else
    some { s with regs := upd s.regs dst ((s.regs src + imm) % B) }
  | .addi r imm =>
    if r = k.aReg ∨ r = k.bReg then none else
    let t := s.regs r + imm % B
    some { s with regs := upd s.regs r (t % B), cf := decide (B ≤ t), zf := decide (t % B = 0) }
  | .subi r imm =>
    if r = k.aReg ∨ r = k.bReg then none else
    let sub := imm % B
    let v := if sub ≤ s.regs r then s.regs r - sub else s.regs r + B - sub
    some { s with regs := upd s.regs r v, cf := decide (s.regs r < sub), zf := decide (v = 0) }
  | .setc r =>
    if r = k.aReg ∨ r = k.bReg then none else
    some { s with regs := upd s.regs r (b2n s.cf) }
  | .label _ => none
  | .jnz _ => none

/-- straight-line execution -/
def exec (k : Cfg) : List Instr → St → Option St
  | [], s => some s
  | i :: is, s => match step k i s with
    | none => none
    | some s' => exec k is s'

/-- program shape `pre ++ [label L] ++ body ++ [jnz L] ++ post` with no other control flow -/
structure Loop where
  pre : List Instr
  body : List Instr
  post : List Instr
  deriving DecidableEq, Repr

def isCtl : Instr → Bool
  | .label _ => true | .jnz _ => true | _ => false

def splitLoop (prog : List Instr) : Option Loop :=
  let pre := prog.takeWhile (fun i => !isCtl i)
  match prog.drop pre.length with
  | .label l :: rest =>
    let body := rest.takeWhile (fun i => !isCtl i)
    match rest.drop body.length with
    | .jnz l' :: post => if l = l' ∧ post.all (fun i => !isCtl i) then some ⟨pre, body, post⟩ else none
    | _ => none
  | _ => none

/-- do-while: run the body, jump back while ZF = 0 -/
def loop (k : Cfg) (body : List Instr) : Nat → St → Option St
  | 0, _ => none
  | fuel + 1, s => match exec k body s with
    | none => none
    | some s' => if s'.zf then some s' else loop k body fuel s'

def run (k : Cfg) (prog : List Instr) (fuel : Nat) (s : St) : Option St :=
  match splitLoop prog with
  | none => none
  | some l => match exec k l.pre s with
    | none => none
    | some s1 => match loop k l.body fuel s1 with
      | none => none
      | some s2 => exec k l.post s2

/-- registers description needed to call an asm routine -/
structure Regs where
  size : Nat
  a : Nat
  b : Nat
  c : Nat
  idx : Nat

def memOf (l : List Nat) : Nat → Nat := fun i => l.getD i 0

/-- initial state of the Rust wrapper: `size /= d` iterations (must be ≥ 1: the wrapper returns
    early when it is 0), `idx = 0`, all other registers arbitrary (0 here) -/
def initSt (r : Regs) (n : Nat) (a b : List Nat) : St :=
  { regs := upd (upd (fun _ => 0) r.size n) r.idx 0, cf := false, zf := false, a := memOf a, b := memOf b }

/-- run an asm routine on two slices the way the Rust wrapper does; result (carry, idx, new a) -/
def call (prog : List Instr) (r : Regs) (d : Nat) (a b : List Nat) (size : Nat) : Option (Bool × Nat × List Nat) :=
  let n := size / d
  if n = 0 then some (false, 0, a) else
  let k : Cfg := ⟨r.a, r.b, a.length, b.length⟩
  match run k prog (n + 1) (initSt r n a b) with
  | none => none
  | some s => some (s.regs r.c > 0, s.regs r.idx, (List.range a.length).map s.a)

end NB.Asm
