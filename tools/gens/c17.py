"""C17 — serde format: request generator.

Values: zero; top 64-bit digit with zero / non-zero high half (and zero low half); 0..many digits.
Token sequences: arbitrary u32 lists with 0..3 trailing zeros, odd / even length, absent / exact /
wrong / huge size hints; every sign byte -128..127 plus out-of-i8 integers; inconsistent
(sign, magnitude) pairs (sign 0 with digits, sign +-1 with zero digits).
"""
from genlib import *
M32 = (1 << 32) - 1

W = 1 << 32
HUGE = (1 << 64) - 1

def values(rng, tier):
    ns = list(range(0, 6)) + [8, 9]
    if tier == "thorough":
        ns += [rng.randrange(6, 80) for _ in range(10)]
    out = []
    for n in ns:
        if n == 0:
            out.append(0); continue
        low = [rng.randrange(B) for _ in range(n - 1)]
        tops = [rng.randrange(1, W), rng.randrange(W, B), 1, W - 1, W, W + 1, MAX, 7 << 32, 1 << 63]
        for t in tops:
            out.append(val(low + [t]))
        out.append(val([0] * (n - 1) + [rng.choice(tops)]))
        out.append(val([x & (W - 1) for x in low] + [rng.choice(tops)]))       # zero high halves inside
        out.append(val([x & ~(W - 1) for x in low] + [rng.choice(tops)]))      # zero low halves inside
    return out

def val_words(ws):
    return sum(w << (32 * i) for i, w in enumerate(ws))

def long_word_lists(rng, tier):
    """sequences around block sizes a staged / chunked visitor would use (256, 512, 1024, 4096 elements): odd and even
    lengths just past the block, non-zero elements everywhere, and a zero-high-half top digit (C17-v1: elements staged
    through a reused [u32; 1024] block, the odd tail of a later block picks up a stale element)"""
    out = []
    for blk in ([256, 1024, 4096] if tier != "thorough" else [64, 128, 256, 512, 1024, 2048, 4096, 8192]):
        for n in (blk - 1, blk, blk + 1, blk + 2, blk + 3, 2 * blk + 1, 2 * blk + 2, 3 * blk + 5):
            out.append([rng.randrange(1, W) for _ in range(n)])
    return out

def word_lists(rng, tier):
    out = [[], [0], [0, 0], [0, 0, 0], [1], [1, 0], [0, 1], [0, 0, 1], [1, 0, 0], [W - 1], [W - 1] * 3]
    lens = list(range(0, 13)) + [16, 17]
    reps = 4
    if tier == "thorough":
        lens += [rng.randrange(0, 200) for _ in range(40)]
        reps = 16
    for n in lens:
        for _ in range(reps):
            core = [rng.choice([rng.randrange(W), rng.randrange(W), 0, W - 1, 1]) for _ in range(n)]
            for tz in (0, 1, 2, 3):
                out.append(core + [0] * tz)
            if n:
                out.append(core[:-1] + [rng.randrange(1, W)])
    return out

def hints(rng, n):
    return [None, "none", str(n), "0", str(n + 1), str(max(0, n - 1)), str(2 * n + 3), "1", str(262144), str(262145),
            str(1 << 40), str(HUGE)]

def gen(rng, tier):
    reqs = []
    vs = values(rng, tier)
    for v in vs:
        reqs.append("C17 u.ser %s" % wu(v))
        reqs.append("C17 u.roundtrip %s" % wu(v))
        for s in (v, -v):
            reqs.append("C17 i.ser %s" % wi(s))
            reqs.append("C17 i.roundtrip %s" % wi(s))
    wls = word_lists(rng, tier)
    for ws in long_word_lists(rng, tier):
        w = wwords(ws)
        reqs.append("C17 u.de %s" % w)
        reqs.append("C17 u.de %s %d" % (w, len(ws)))
        reqs.append("C17 i.de %d %s" % (rng.choice([-1, 1]), w))
        reqs.append("C17 u.de_in_place %s %s" % (wu(big(rng, 3)), w))
        v = val_words(ws)
        reqs.append("C17 u.roundtrip %s" % wu(v))
        reqs.append("C17 i.roundtrip %s" % wi(-v))
    for ws in wls:
        w = wwords(ws)
        hs = hints(rng, len(ws))
        for h in ([hs[0], hs[2]] + [rng.choice(hs) for _ in range(2)]):
            reqs.append("C17 u.de %s%s" % (w, "" if h is None else " " + h))
        for sb in (-1, 0, 1):
            h = rng.choice(hs)
            reqs.append("C17 i.de %d %s%s" % (sb, w, "" if h is None else " " + h))
        sb = rng.choice([2, -2, 3, 127, -128, 128, -129, 255, 256, -256, 1 << 31, -(1 << 31), (1 << 63) - 1, -(1 << 63),
                         rng.randrange(-128, 128)])
        reqs.append("C17 i.de %d %s" % (sb, w))
    # every i8 sign byte (and neighbours outside i8) against zero / non-zero magnitudes
    for sb in list(range(-130, 131)) + [255, 256, 257, 65535, -65536, (1 << 63) - 1, -(1 << 63)]:
        for ws in ([], [0], [0, 0], [5], [0, 5, 0], [rng.randrange(W) for _ in range(rng.randrange(1, 6))]):
            reqs.append("C17 i.de %d %s" % (sb, wwords(ws)))
    # deserialize_in_place (serde's provided method) over targets that already hold a value: empty / short / long
    # sequences into zero, short and long targets, with and without size hints
    olds = [0, 1, B - 1, B, big(rng, 2), big(rng, 3), big(rng, 7)]
    seqs = [[], [0], [0, 0, 0], [1], [0, 1], [1, 0, 0], [5, 6, 7], [0, 0, 1], [M32] * 3, [rng.randrange(1 << 32) for _ in range(9)],
            [rng.randrange(1 << 32) for _ in range(16)]]
    for old in olds:
        for ws in seqs:
            for hint in (None, "none", str(len(ws)), "0", str(len(ws) + 3)):
                h = "" if hint is None else " " + hint
                reqs.append("C17 u.de_in_place %s %s%s" % (wu(old), wwords(ws), h))
                if rng.randrange(3) == 0:
                    sv = rng.choice([-1, 0, 1, 1, -1, 2, 255])
                    reqs.append("C17 i.de_in_place %s %d %s%s" % (wi(signed(rng, old)), sv, wwords(ws), h))
    # api-coverage block: Serialize / Deserialize for Sign on their own: the three signs; every i8 value and
    # integers outside i8 (only -1, 0, 1 are accepted)
    for s in "+-0":
        reqs.append("C17 sign.ser %s" % s)
    for sb in list(range(-130, 131)) + [255, 256, 65535, -65536, (1 << 31), -(1 << 31), (1 << 63) - 1, -(1 << 63)]:
        reqs.append("C17 sign.de %d" % sb)
    # typed sign tokens: every integer kind of serde's data model at its own boundaries (MAX/MIN of the kind are the
    # values a wrapping cast turns into -1 / 0 / 1), 128-bit kinds and non-integer kinds (always rejected)  (C17-s1)
    kinds = {"i8": (-(1 << 7), (1 << 7) - 1), "i16": (-(1 << 15), (1 << 15) - 1), "i32": (-(1 << 31), (1 << 31) - 1),
             "i64": (-(1 << 63), (1 << 63) - 1), "i128": (-(1 << 127), (1 << 127) - 1), "u8": (0, (1 << 8) - 1),
             "u16": (0, (1 << 16) - 1), "u32": (0, (1 << 32) - 1), "u64": (0, (1 << 64) - 1), "u128": (0, (1 << 128) - 1)}
    for k, (lo, hi) in kinds.items():
        vals = {lo, lo + 1, lo + 2, hi, hi - 1, hi - 2, -1, 0, 1, 2, -2, hi // 2, hi // 2 + 1, hi // 2 + 2, rng.randrange(lo, hi + 1)}
        for sh in (8, 16, 32, 64):
            vals |= {(1 << sh) - 1, 1 << sh, (1 << sh) + 1, -(1 << sh), -(1 << sh) + 1, -(1 << sh) - 1, (1 << (sh - 1)), (1 << (sh - 1)) - 1}
        for v in sorted(x for x in vals if lo <= x <= hi):
            reqs.append("C17 sign.de_t %s:%d" % (k, v))
            for ws in ([], [5], [0, 7, 0]):
                reqs.append("C17 i.de_t %s:%d %s" % (k, v, wwords(ws)))
    for k in ("bool", "f32", "f64", "char", "str", "bytes", "unit", "none", "seq"):
        for v in (-1, 0, 1):
            reqs.append("C17 sign.de_t %s:%d" % (k, v))
            reqs.append("C17 i.de_t %s:%d %s" % (k, v, wwords([5])))
    # type hints requested while decoding (non-self-describing formats decode by hint; C17-u1: `i64::deserialize` for
    # the sign): every shape of sequence, accepted and rejected signs
    for ws in ([], [0], [5], [5, 6], [0, 0, 1], [1, 2, 3, 4, 5], [rng.randrange(W) for _ in range(rng.randrange(6, 40))]):
        for h in ("", " none", " %d" % len(ws), " 0"):
            reqs.append("C17 u.de_hints %s%s" % (wwords(ws), h))
        for sv in (-1, 0, 1, 2, -2, 127, -128, 255, 1 << 40):
            reqs.append("C17 i.de_hints %d %s%s" % (sv, wwords(ws), rng.choice(["", " none", " %d" % len(ws)])))
    for sv in (-1, 0, 1, 2, 300):
        reqs.append("C17 sign.de_hints %d" % sv)
    # typed element tokens: each u32 digit delivered as any integer kind; values at the u32 boundary for the wider
    # kinds (2^32 - 1 accepted, 2^32 / negative / 128-bit / non-integer rejected), mixed kinds in one sequence
    ik = ["u8", "u16", "u32", "u64", "i8", "i16", "i32", "i64"]
    def fit(k, v):
        lo, hi = kinds[k]
        return lo <= v <= hi
    for _ in range(120 if tier != "thorough" else 600):
        n = rng.choice([0, 1, 1, 2, 3, 4, 5, 9])
        toks = []
        for j in range(n):
            k = rng.choice(ik)
            lo, hi = kinds[k]
            v = rng.choice([0, 1, hi, min(hi, W - 1), rng.randrange(0, min(hi, W - 1) + 1), rng.randrange(0, hi + 1)])
            toks.append((k, v))
        mode = rng.randrange(6)
        if n and mode == 0:
            j = rng.randrange(n); toks[j] = (rng.choice(["u64", "i64"]), rng.choice([W, W + 1, (1 << 63) - 1, W * 2 + 5]))
        elif n and mode == 1:
            j = rng.randrange(n); toks[j] = (rng.choice(["i8", "i16", "i32", "i64"]), rng.choice([-1, -2, -128]))
        elif n and mode == 2:
            j = rng.randrange(n); toks[j] = (rng.choice(["u128", "i128", "bool", "f64", "str", "unit", "none", "char", "bytes"]), rng.choice([0, 1, 5]))
        elif n and mode == 3:
            j = rng.randrange(n); toks[j] = ("u64", (1 << 64) - 1 - rng.randrange(2))
        l = ",".join("%s:%d" % t for t in toks) if toks else "."
        h = rng.choice(["", "", " none", " %d" % n, " 0", " %d" % (n + 7)])
        reqs.append("C17 u.de_tl %s%s" % (l, h))
    return reqs
