//! stream C17: serde format, observed through a hand-written recording `Serializer` and a
//! token-replay `Deserializer` (no extra crates).
#[cfg(feature = "serde")]
mod imp {
    use crate::wire::*;
    use num_bigint::{BigInt, BigUint};
    use serde::de::{self, DeserializeSeed, Deserializer, SeqAccess, Visitor};
    use serde::ser::{self, Impossible, Serialize, SerializeSeq, SerializeTuple, Serializer};
    use serde::Deserialize;
    use std::fmt::{self, Display};

    #[derive(Debug)]
    pub struct Err(String);
    impl Display for Err {
        fn fmt(&self, f: &mut fmt::Formatter<'_>) -> fmt::Result {
            f.write_str(&self.0)
        }
    }
    impl ser::StdError for Err {}
    impl ser::Error for Err {
        fn custom<T: Display>(msg: T) -> Self {
            Err(msg.to_string())
        }
    }
    impl de::Error for Err {
        fn custom<T: Display>(msg: T) -> Self {
            Err(msg.to_string())
        }
    }

    /// records every call the value makes on the serializer
    pub struct Rec {
        pub toks: Vec<String>,
    }

    macro_rules! prim {
        ($($f:ident $t:ty, $tag:expr;)*) => {
            $(fn $f(self, v: $t) -> Result<(), Err> { self.toks.push(format!("{}:{}", $tag, v)); Ok(()) })*
        };
    }

    impl<'a> Serializer for &'a mut Rec {
        type Ok = ();
        type Error = Err;
        type SerializeSeq = Self;
        type SerializeTuple = Self;
        type SerializeTupleStruct = Impossible<(), Err>;
        type SerializeTupleVariant = Impossible<(), Err>;
        type SerializeMap = Impossible<(), Err>;
        type SerializeStruct = Impossible<(), Err>;
        type SerializeStructVariant = Impossible<(), Err>;

        prim! {
            serialize_bool bool, "bool"; serialize_i8 i8, "i8"; serialize_i16 i16, "i16"; serialize_i32 i32, "i32";
            serialize_i64 i64, "i64"; serialize_i128 i128, "i128"; serialize_u8 u8, "u8"; serialize_u16 u16, "u16";
            serialize_u32 u32, "u32"; serialize_u64 u64, "u64"; serialize_u128 u128, "u128"; serialize_f32 f32, "f32";
            serialize_f64 f64, "f64"; serialize_char char, "char";
        }
        fn serialize_str(self, v: &str) -> Result<(), Err> {
            self.toks.push(format!("str:{}", v.len()));
            Ok(())
        }
        fn serialize_bytes(self, v: &[u8]) -> Result<(), Err> {
            self.toks.push(format!("bytes:{}", show_bytes(v)));
            Ok(())
        }
        fn serialize_none(self) -> Result<(), Err> {
            self.toks.push("none".into());
            Ok(())
        }
        fn serialize_some<T: ?Sized + Serialize>(self, v: &T) -> Result<(), Err> {
            self.toks.push("some".into());
            v.serialize(self)
        }
        fn serialize_unit(self) -> Result<(), Err> {
            self.toks.push("unit".into());
            Ok(())
        }
        fn serialize_unit_struct(self, n: &'static str) -> Result<(), Err> {
            self.toks.push(format!("unit_struct:{}", n));
            Ok(())
        }
        fn serialize_unit_variant(self, n: &'static str, i: u32, v: &'static str) -> Result<(), Err> {
            self.toks.push(format!("unit_variant:{}:{}:{}", n, i, v));
            Ok(())
        }
        fn serialize_newtype_struct<T: ?Sized + Serialize>(self, n: &'static str, v: &T) -> Result<(), Err> {
            self.toks.push(format!("newtype_struct:{}", n));
            v.serialize(self)
        }
        fn serialize_newtype_variant<T: ?Sized + Serialize>(
            self,
            n: &'static str,
            i: u32,
            var: &'static str,
            v: &T,
        ) -> Result<(), Err> {
            self.toks.push(format!("newtype_variant:{}:{}:{}", n, i, var));
            v.serialize(self)
        }
        fn serialize_seq(self, len: Option<usize>) -> Result<Self, Err> {
            self.toks.push(match len {
                Some(n) => format!("seq:{}", n),
                None => "seq:none".into(),
            });
            Ok(self)
        }
        fn serialize_tuple(self, len: usize) -> Result<Self, Err> {
            self.toks.push(format!("tuple:{}", len));
            Ok(self)
        }
        fn serialize_tuple_struct(self, _: &'static str, _: usize) -> Result<Self::SerializeTupleStruct, Err> {
            Result::Err(Err("tuple_struct".into()))
        }
        fn serialize_tuple_variant(
            self,
            _: &'static str,
            _: u32,
            _: &'static str,
            _: usize,
        ) -> Result<Self::SerializeTupleVariant, Err> {
            Result::Err(Err("tuple_variant".into()))
        }
        fn serialize_map(self, _: Option<usize>) -> Result<Self::SerializeMap, Err> {
            Result::Err(Err("map".into()))
        }
        fn serialize_struct(self, _: &'static str, _: usize) -> Result<Self::SerializeStruct, Err> {
            Result::Err(Err("struct".into()))
        }
        fn serialize_struct_variant(
            self,
            _: &'static str,
            _: u32,
            _: &'static str,
            _: usize,
        ) -> Result<Self::SerializeStructVariant, Err> {
            Result::Err(Err("struct_variant".into()))
        }
        fn collect_str<T: ?Sized + Display>(self, v: &T) -> Result<(), Err> {
            self.toks.push(format!("str:{}", v.to_string().len()));
            Ok(())
        }
        fn is_human_readable(&self) -> bool {
            false
        }
    }

    impl<'a> SerializeSeq for &'a mut Rec {
        type Ok = ();
        type Error = Err;
        fn serialize_element<T: ?Sized + Serialize>(&mut self, v: &T) -> Result<(), Err> {
            v.serialize(&mut **self)
        }
        fn end(self) -> Result<(), Err> {
            self.toks.push("end".into());
            Ok(())
        }
    }

    impl<'a> SerializeTuple for &'a mut Rec {
        type Ok = ();
        type Error = Err;
        fn serialize_element<T: ?Sized + Serialize>(&mut self, v: &T) -> Result<(), Err> {
            v.serialize(&mut **self)
        }
        fn end(self) -> Result<(), Err> {
            self.toks.push("end".into());
            Ok(())
        }
    }

    /// `seq <declared> w<elems>` when the tokens are exactly one well-formed u32 sequence
    fn fmt_seq(toks: &[String]) -> Option<String> {
        let (first, rest) = toks.split_first()?;
        let decl = first.strip_prefix("seq:")?;
        let (last, mid) = rest.split_last()?;
        if last != "end" {
            return None;
        }
        let mut ws = vec![];
        for t in mid {
            ws.push(t.strip_prefix("u32:")?.parse::<u32>().ok()?);
        }
        Some(format!("seq {} {}", decl, show_words(&ws)))
    }

    fn fmt_tokens(toks: &[String]) -> String {
        if let Some(s) = fmt_seq(toks) {
            return format!("ok {}", s);
        }
        // tuple:2 i8:<s> <seq…> end
        if toks.len() >= 4 && toks[0].starts_with("tuple:") && toks[1].starts_with("i8:") && toks[toks.len() - 1] == "end" {
            if let Some(s) = fmt_seq(&toks[2..toks.len() - 1]) {
                return format!("ok tuple {} i8 {} {}", &toks[0][6..], &toks[1][3..], s);
            }
        }
        format!("ok raw {}", toks.join(";"))
    }

    /// the token tree replayed to `Deserialize`
    pub enum Tok {
        I(i64),
        /// a token of an explicit serde data-model kind: `kind:value` (the value must fit the kind)
        Typed(String, i128, u128),
        U32(u32),
        Seq(Option<usize>, Vec<Tok>),
    }

    pub struct De<'a>(pub &'a Tok);

    macro_rules! hinted {
        ($($m:ident => $name:expr),*) => {
            $(fn $m<V: Visitor<'de>>(self, v: V) -> Result<V::Value, Err> {
                hint($name.to_string());
                self.deserialize_any(v)
            })*
        };
    }

    impl<'de, 'a> Deserializer<'de> for De<'a> {
        type Error = Err;
        fn deserialize_any<V: Visitor<'de>>(self, v: V) -> Result<V::Value, Err> {
            match self.0 {
                Tok::I(x) => {
                    if *x >= i8::MIN as i64 && *x <= i8::MAX as i64 {
                        v.visit_i8(*x as i8)
                    } else {
                        v.visit_i64(*x)
                    }
                }
                Tok::Typed(k, i, u) => match k.as_str() {
                    "i8" => v.visit_i8(*i as i8),
                    "i16" => v.visit_i16(*i as i16),
                    "i32" => v.visit_i32(*i as i32),
                    "i64" => v.visit_i64(*i as i64),
                    "i128" => v.visit_i128(*i),
                    "u8" => v.visit_u8(*u as u8),
                    "u16" => v.visit_u16(*u as u16),
                    "u32" => v.visit_u32(*u as u32),
                    "u64" => v.visit_u64(*u as u64),
                    "u128" => v.visit_u128(*u),
                    "bool" => v.visit_bool(*i != 0),
                    "f32" => v.visit_f32(*i as f32),
                    "f64" => v.visit_f64(*i as f64),
                    "char" => v.visit_char(if *i == 0 { '0' } else { '1' }),
                    "str" => v.visit_str(&i.to_string()),
                    "bytes" => v.visit_bytes(&[*i as u8]),
                    "unit" => v.visit_unit(),
                    "none" => v.visit_none(),
                    _ => v.visit_seq(SeqA { it: [].iter(), hint: None }),
                },
                Tok::U32(x) => v.visit_u32(*x),
                Tok::Seq(hint, items) => v.visit_seq(SeqA { it: items.iter(), hint: *hint }),
            }
        }
        // every type hint is recorded (a non-self-describing format decodes by the hint, so the hints are part of
        // the wire contract: they must mirror what `Serialize` emits), then the token is delivered as it is
        hinted! {
            deserialize_bool => "bool", deserialize_i8 => "i8", deserialize_i16 => "i16", deserialize_i32 => "i32",
            deserialize_i64 => "i64", deserialize_i128 => "i128", deserialize_u8 => "u8", deserialize_u16 => "u16",
            deserialize_u32 => "u32", deserialize_u64 => "u64", deserialize_u128 => "u128", deserialize_f32 => "f32",
            deserialize_f64 => "f64", deserialize_char => "char", deserialize_str => "str", deserialize_string => "string",
            deserialize_bytes => "bytes", deserialize_byte_buf => "byte_buf", deserialize_option => "option",
            deserialize_unit => "unit", deserialize_seq => "seq", deserialize_map => "map",
            deserialize_identifier => "identifier", deserialize_ignored_any => "ignored_any"
        }
        fn deserialize_unit_struct<V: Visitor<'de>>(self, _: &'static str, v: V) -> Result<V::Value, Err> {
            hint("unit_struct".into());
            self.deserialize_any(v)
        }
        fn deserialize_newtype_struct<V: Visitor<'de>>(self, _: &'static str, v: V) -> Result<V::Value, Err> {
            hint("newtype_struct".into());
            self.deserialize_any(v)
        }
        fn deserialize_tuple<V: Visitor<'de>>(self, len: usize, v: V) -> Result<V::Value, Err> {
            hint(format!("tuple{}", len));
            self.deserialize_any(v)
        }
        fn deserialize_tuple_struct<V: Visitor<'de>>(self, _: &'static str, len: usize, v: V) -> Result<V::Value, Err> {
            hint(format!("tuple_struct{}", len));
            self.deserialize_any(v)
        }
        fn deserialize_struct<V: Visitor<'de>>(
            self,
            _: &'static str,
            _: &'static [&'static str],
            v: V,
        ) -> Result<V::Value, Err> {
            hint("struct".into());
            self.deserialize_any(v)
        }
        fn deserialize_enum<V: Visitor<'de>>(
            self,
            _: &'static str,
            _: &'static [&'static str],
            v: V,
        ) -> Result<V::Value, Err> {
            hint("enum".into());
            self.deserialize_any(v)
        }
        fn is_human_readable(&self) -> bool {
            false
        }
    }

    thread_local! {
        static HINTS: std::cell::RefCell<Vec<String>> = const { std::cell::RefCell::new(Vec::new()) };
    }
    fn hint(h: String) {
        HINTS.with(|c| c.borrow_mut().push(h));
    }
    fn take_hints() -> String {
        HINTS.with(|c| {
            let v = std::mem::take(&mut *c.borrow_mut());
            // run-length: `u32*5`
            let mut out: Vec<String> = vec![];
            let mut i = 0;
            while i < v.len() {
                let mut j = i;
                while j < v.len() && v[j] == v[i] {
                    j += 1;
                }
                out.push(if j - i > 1 { format!("{}*{}", v[i], j - i) } else { v[i].clone() });
                i = j;
            }
            if out.is_empty() { "-".to_string() } else { out.join(",") }
        })
    }

    struct SeqA<'a> {
        it: std::slice::Iter<'a, Tok>,
        hint: Option<usize>,
    }

    impl<'de, 'a> SeqAccess<'de> for SeqA<'a> {
        type Error = Err;
        fn next_element_seed<T: DeserializeSeed<'de>>(&mut self, seed: T) -> Result<Option<T::Value>, Err> {
            match self.it.next() {
                Some(t) => seed.deserialize(De(t)).map(Some),
                None => Ok(None),
            }
        }
        fn size_hint(&self) -> Option<usize> {
            self.hint
        }
    }

    fn parse_hint(a: &[&str]) -> Option<Option<usize>> {
        match a {
            [] => Some(None),
            [h] if *h == "none" => Some(None),
            [h] => Some(Some(h.parse::<usize>().ok()?)),
            _ => None,
        }
    }

    /// `kind:value`; integer kinds require the value to fit the kind
    fn typed_tok(s: &str) -> Option<Tok> {
        let (k, v) = s.split_once(':')?;
        let (mut i, mut u) = (0i128, 0u128);
        let fits = |lo: i128, hi: i128, x: i128| x >= lo && x <= hi;
        match k {
            "i8" | "i16" | "i32" | "i64" | "i128" => {
                i = v.parse::<i128>().ok()?;
                let b = k[1..].parse::<u32>().ok()?;
                if b < 128 && !fits(-(1i128 << (b - 1)), (1i128 << (b - 1)) - 1, i) {
                    return None;
                }
            }
            "u8" | "u16" | "u32" | "u64" | "u128" => {
                u = v.parse::<u128>().ok()?;
                let b = k[1..].parse::<u32>().ok()?;
                if b < 128 && u >> b != 0 {
                    return None;
                }
            }
            "bool" | "f32" | "f64" | "char" | "str" | "bytes" | "unit" | "none" | "seq" => {
                i = v.parse::<i128>().ok()?;
                if !fits(-128, 127, i) {
                    return None;
                }
            }
            _ => return None,
        }
        Some(Tok::Typed(k.to_string(), i, u))
    }

    fn seq_tok(w: &str, hint: Option<usize>) -> Option<Tok> {
        Some(Tok::Seq(hint, parse_words(w)?.into_iter().map(Tok::U32).collect()))
    }

    pub fn handle(op: &str, a: &[&str]) -> Option<String> {
        Some(match (op, a) {
            ("u.ser", [x]) => {
                let v = parse_u(x)?;
                let mut r = Rec { toks: vec![] };
                match v.serialize(&mut r) {
                    Ok(()) => fmt_tokens(&r.toks),
                    Result::Err(_) => "err".to_string(),
                }
            }
            ("i.ser", [x]) => {
                let v = parse_i(x)?;
                let mut r = Rec { toks: vec![] };
                match v.serialize(&mut r) {
                    Ok(()) => fmt_tokens(&r.toks),
                    Result::Err(_) => "err".to_string(),
                }
            }
            ("u.de", [w, h @ ..]) => {
                let t = seq_tok(w, parse_hint(h)?)?;
                match BigUint::deserialize(De(&t)) {
                    Ok(v) => ok_u(&v),
                    Result::Err(_) => "err".to_string(),
                }
            }
            // the provided trait method `Deserialize::deserialize_in_place` (default: deserialize + assign) on a
            // target that already holds a value: the old contents must not influence the result
            ("u.de_in_place", [old, w, h @ ..]) => {
                let t = seq_tok(w, parse_hint(h)?)?;
                let mut place = parse_u(old)?;
                match <BigUint as Deserialize>::deserialize_in_place(De(&t), &mut place) {
                    Ok(()) => ok_u(&place),
                    Result::Err(_) => "err".to_string(),
                }
            }
            ("i.de_in_place", [old, s, w, h @ ..]) => {
                let sv: i64 = s.parse().ok()?;
                let t = Tok::Seq(Some(2), vec![Tok::I(sv), seq_tok(w, parse_hint(h)?)?]);
                let mut place = parse_i(old)?;
                match <BigInt as Deserialize>::deserialize_in_place(De(&t), &mut place) {
                    Ok(()) => ok_i(&place),
                    Result::Err(_) => "err".to_string(),
                }
            }
            ("i.de", [s, w, h @ ..]) => {
                let sv: i64 = s.parse().ok()?;
                let t = Tok::Seq(Some(2), vec![Tok::I(sv), seq_tok(w, parse_hint(h)?)?]);
                match BigInt::deserialize(De(&t)) {
                    Ok(v) => ok_i(&v),
                    Result::Err(_) => "err".to_string(),
                }
            }
            ("u.roundtrip", [x]) => {
                let v = parse_u(x)?;
                let mut r = Rec { toks: vec![] };
                v.serialize(&mut r).ok()?;
                let (first, rest) = r.toks.split_first()?;
                let hint = first.strip_prefix("seq:")?.parse::<usize>().ok();
                let mut items = vec![];
                for t in &rest[..rest.len() - 1] {
                    items.push(Tok::U32(t.strip_prefix("u32:")?.parse().ok()?));
                }
                let t = Tok::Seq(hint, items);
                match BigUint::deserialize(De(&t)) {
                    Ok(v) => ok_u(&v),
                    Result::Err(_) => "err".to_string(),
                }
            }
            ("i.roundtrip", [x]) => {
                let v = parse_i(x)?;
                let mut r = Rec { toks: vec![] };
                v.serialize(&mut r).ok()?;
                let toks = &r.toks;
                if toks.len() < 5 {
                    return Some(format!("ok raw {}", toks.join(";")));
                }
                let sv: i64 = toks[1].strip_prefix("i8:")?.parse().ok()?;
                let hint = toks[2].strip_prefix("seq:")?.parse::<usize>().ok();
                let mut items = vec![];
                for t in &toks[3..toks.len() - 2] {
                    items.push(Tok::U32(t.strip_prefix("u32:")?.parse().ok()?));
                }
                let t = Tok::Seq(Some(2), vec![Tok::I(sv), Tok::Seq(hint, items)]);
                match BigInt::deserialize(De(&t)) {
                    Ok(v) => ok_i(&v),
                    Result::Err(_) => "err".to_string(),
                }
            }
            // api-coverage: `Serialize for Sign` / `Deserialize for Sign` on their own (public impls of a public
            // type; above they are only reached as the first tuple field of a BigInt)
            ("sign.ser", [s]) => {
                let mut it = s.chars();
                let sg = parse_sign(it.next()?)?;
                if it.next().is_some() {
                    return None;
                }
                let mut r = Rec { toks: vec![] };
                match sg.serialize(&mut r) {
                    Ok(()) => format!("ok {}", r.toks.join(";")),
                    Result::Err(_) => "err".to_string(),
                }
            }
            // the sign field delivered as a token of any serde data-model kind (JSON-like formats hand every
            // non-negative integer over as u64, compact ones as the narrowest type, ...)
            // every element of the digit sequence delivered as a token of an explicit kind (kinds may be mixed)
            // the sequence of `deserialize_*` type hints requested while decoding
            ("u.de_hints", [w, h @ ..]) => {
                let t = seq_tok(w, parse_hint(h)?)?;
                take_hints();
                let r = BigUint::deserialize(De(&t));
                let hs = take_hints();
                match r {
                    Ok(v) => format!("{} ; {}", ok_u(&v), hs),
                    Result::Err(_) => format!("err ; {}", hs),
                }
            }
            ("i.de_hints", [s, w, h @ ..]) => {
                let sv: i64 = s.parse().ok()?;
                let t = Tok::Seq(Some(2), vec![Tok::I(sv), seq_tok(w, parse_hint(h)?)?]);
                take_hints();
                let r = BigInt::deserialize(De(&t));
                let hs = take_hints();
                match r {
                    Ok(v) => format!("{} ; {}", ok_i(&v), hs),
                    Result::Err(_) => format!("err ; {}", hs),
                }
            }
            ("sign.de_hints", [v]) => {
                let t = Tok::I(v.parse::<i64>().ok()?);
                take_hints();
                let r = num_bigint::Sign::deserialize(De(&t));
                let hs = take_hints();
                match r {
                    Ok(s) => format!("ok {} ; {}", show_sign(s), hs),
                    Result::Err(_) => format!("err ; {}", hs),
                }
            }
            ("u.de_tl", [l, h @ ..]) => {
                let items: Vec<Tok> =
                    if *l == "." { vec![] } else { l.split(',').map(typed_tok).collect::<Option<Vec<_>>>()? };
                let t = Tok::Seq(parse_hint(h)?, items);
                match BigUint::deserialize(De(&t)) {
                    Ok(v) => ok_u(&v),
                    Result::Err(_) => "err".to_string(),
                }
            }
            ("i.de_t", [kv, w, h @ ..]) => {
                let t = Tok::Seq(Some(2), vec![typed_tok(kv)?, seq_tok(w, parse_hint(h)?)?]);
                match BigInt::deserialize(De(&t)) {
                    Ok(v) => ok_i(&v),
                    Result::Err(_) => "err".to_string(),
                }
            }
            ("sign.de_t", [kv]) => {
                let t = typed_tok(kv)?;
                match num_bigint::Sign::deserialize(De(&t)) {
                    Ok(s) => format!("ok {}", show_sign(s)),
                    Result::Err(_) => "err".to_string(),
                }
            }
            ("sign.de", [v]) => {
                let t = Tok::I(v.parse::<i64>().ok()?);
                match num_bigint::Sign::deserialize(De(&t)) {
                    Ok(s) => format!("ok {}", show_sign(s)),
                    Result::Err(_) => "err".to_string(),
                }
            }
            _ => return None,
        })
    }
}

/// registered handler; without the `serde` feature the stream is unsupported
pub fn handle(op: &str, a: &[&str]) -> Option<String> {
    #[cfg(feature = "serde")]
    {
        imp::handle(op, a)
    }
    #[cfg(not(feature = "serde"))]
    {
        let _ = (op, a);
        None
    }
}
