/- the parameter record `NB.Gen.P` assembled from the generated constants and asm programs -/
import NB.Base
import NB.Gen.Params
import NB.Gen.AsmProg
namespace NB.Gen
open NB.Asm

/-- by how much one instruction advances register `r`: `inc r`, `lea r, [r + imm]`, `add r, imm` -/
def idxAdv (r : Nat) : Instr → Nat
  | .inc r' => if r' = r then 1 else 0
  | .lea d s imm => if d = r ∧ s = r then imm else 0
  | .addi r' imm => if r' = r then imm else 0
  | _ => 0

/-- how far the loop body advances register `r` (syntactic; `NB.Asm.checkLoop` certifies it, see Props/C15) -/
def idxStep (prog : List Instr) (r : Nat) : Nat :=
  (prog.map (idxAdv r)).sum

def P : NB.Params where
  addBlk := ⟨idxStep addProg addReg_idx, addDiv⟩
  subBlk := ⟨idxStep subProg subReg_idx, subDiv⟩
  tSchool := tSchool
  halfMul := halfMul
  tKara := tKara
  halfDen := halfDen
  karaDen := karaDen
  toomDen := toomDen
  toomAdd := toomAdd
  karaSlack := karaSlack
  mulSlack := mulSlack
  bigBase := bigBase
  window := window
  squarings := squarings

end NB.Gen
