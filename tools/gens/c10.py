"""C10 — operator form matrix request generator.

Every form id of harness/src/c10.rs (`id = K*10^6 + OP*10^4 + SHAPE*10^3 + STY*10 + VAR`) gets
N operand tuples (N = 12 quick, 100 thorough).  The forms of one (K, OP, STY, SHAPE) group draw
consecutive entries from one ordered list of (scalar, big) pairs: a Latin square scalar-class ×
relation-of-the-big-to-the-scalar with the extreme scalars (MIN, MAX, 0, -1/1, 2-digit, power of
two) first, so that the val/ref variants of a group together cover the whole square.
`all_forms()` is cross-checked against the table printed by the harness (`C10 forms`) in the
special step of tools/props.py.
"""
from genlib import *

NAMES = ["", "u8", "u16", "u32", "u64", "u128", "usize", "i8", "i16", "i32", "i64", "i128", "isize"]
BITS = [0, 8, 16, 32, 64, 128, 64, 8, 16, 32, 64, 128, 64]
UNS = [1, 2, 3, 4, 5, 6]
SGN = [7, 8, 9, 10, 11, 12]
ALL = UNS + SGN

def smin(t):
    return 0 if t in UNS else -(1 << (BITS[t] - 1))

def smax(t):
    return (1 << BITS[t]) - 1 if t in UNS else (1 << (BITS[t] - 1)) - 1

def ws(t, v):
    assert smin(t) <= v <= smax(t), (t, v)
    return "%s:%d" % (NAMES[t], v)

def fid(k, op, shape, sty, var):
    return k * 1000000 + op * 10000 + shape * 1000 + sty * 10 + var

def all_forms():
    """the id list the harness is expected to provide (checked against `C10 forms`)"""
    out = []
    for k in (1, 2):
        stys = UNS if k == 1 else ALL
        for op in range(1, 9):
            out += [fid(k, op, 0, 0, v) for v in range(6)]
            out += [fid(k, op, 4, 0, v) for v in range(2)]
        for op in range(1, 6):
            for t in stys:
                out += [fid(k, op, 1, t, v) for v in range(4)]
                out += [fid(k, op, 2, t, v) for v in range(4)]
                out += [fid(k, op, 3, t, 0)]
        if k == 1:
            for t in ALL:
                out += [fid(1, 5, 5, t, v) for v in range(2)]
        for op in (9, 10):
            for t in ALL:
                out += [fid(k, op, 1, t, v) for v in range(4)]
                out += [fid(k, op, 3, t, v) for v in range(2)]
        for t in UNS + [13]:
            out += [fid(k, 11, 1, t, v) for v in range(4)]
        for op in (12, 13, 14, 15):
            out.append(fid(k, op, 0, 0, 3))
        for op in (16, 17):
            for t in ([0, 3, 4, 5] if k == 1 else [0, 4, 7, 10, 11]):
                out += [fid(k, op, 6, t, v) for v in range(2)]
    return out

def decode(i):
    return i // 1000000, i // 10000 % 100, i // 1000 % 10, i // 10 % 100, i % 10

# ---------------------------------------------------------------------------------------------
# scalar classes (ordered: extremes first)

def scalar_classes(rng, t):
    mx, mn, b = smax(t), smin(t), BITS[t]
    out = []
    if t in SGN:
        out += [mn, mx, 0, -1, 1, mn + 1]
    else:
        out += [mx, 0, 1, mx - 1]
    # values needing 1, 2, 3+ native digits (32-bit digits: 2^32.., 2^64.., 2^96..; 64-bit: 2^64..)
    cand = [(1 << 31) - 1, 1 << 31, (1 << 32) - 1, 1 << 32, (1 << 32) + 1, (1 << 63) - 1, 1 << 63, (1 << 64) - 1,
            1 << 64, (1 << 64) + 1, (1 << 96) + 5, (1 << 127) - 1, 3 << 100, 12345, 1 << 5, 1 << 20, 1 << 40, 1 << 70,
            0xdeadbeef, 0x123456789abcdef0, (0x0fedcba987654321 << 64) | 0x1122334455667788, 7, 2, 3, 255, 256, 65535, 65536]
    cand = [c for c in cand if c <= mx]
    rng.shuffle(cand)
    # 2-digit value and a power of two early
    big2 = [c for c in cand if c > MAX]
    pw = [c for c in cand if c & (c - 1) == 0 and c > 2]
    first = (big2[:1] if big2 else cand[:1]) + pw[:1]
    rest = [c for c in cand if c not in first]
    pos = first + rest
    for i, c in enumerate(pos):
        out.append(c)
        if t in SGN and i % 2 == 0 and -c >= mn:
            out.append(-c)
    out.append(rng.randrange(mn, mx + 1))
    out.append(rng.randrange(mn, mx + 1))
    seen, res = set(), []
    for v in out:
        if mn <= v <= mx and v not in seen:
            seen.add(v); res.append(v)
    return res

# relations of the big operand to the scalar s (as a function returning a non-negative magnitude
# and a preferred sign hint: 0 = same sign as needed to cancel, 1 = random)
def rel_bigs(rng, s, large_len):
    a = abs(s)
    return [
        ("eq", a),
        ("large", big(rng, large_len)),
        ("zero", 0),
        ("less", a - 1 if a > 0 else 0),
        ("more", a + 1),
        ("one", 1),
        ("2dig", big(rng, 2)),
        ("rand1", rng.randrange(1, B)),
        ("3dig", big(rng, 3, "ones")),
        ("half", a // 2 + 1),
        ("B", B),
        ("B-1", MAX),
        ("dbl", a * 2 + 1),
        ("B2", (1 << 128) + rng.randrange(3)),
        ("small", rng.choice([2, 3, 5, 7, 10, 255, 65537])),
        ("5dig", big(rng, 5)),
    ]

def pair_list(rng, t, k, n_rounds, large_len):
    """Latin square of scalar classes × relations, extremes first"""
    S = scalar_classes(rng, t)
    nrel = 16
    out = []
    for r in range(n_rounds):
        for i, s in enumerate(S):
            rels = rel_bigs(rng, s, large_len + rng.randrange(8))
            name, m = rels[(i + 3 * r) % nrel] if r else rels[i % nrel]
            if k == 2:
                # opposite sign first (cancellation / cmp arms), then random
                sg = -1 if (s >= 0) else 1
                if i % 3 == 2:
                    sg = -sg
                if r % 2 == 1 or name in ("large", "2dig"):
                    sg = rng.choice([-1, 1])
                m = sg * m
            out.append((s, m))
    return out

# ---------------------------------------------------------------------------------------------
# big∘big operand pairs

def bigbig_pairs(rng, k, op, n):
    L = 40 + rng.randrange(24)
    a = big(rng, L); b = big(rng, L); c = big(rng, L + 7); d = big(rng, 3); e = rng.randrange(1, B)
    ones = val([MAX] * L)
    base = [
        (a, b), (c, a), (a, c), (a, a), (a, d), (d, a), (ones, 1), (ones, ones), (a, e), (e, a), (0, a), (a, 0),
        (0, 0), (d, e), (e, e + 1), (a + 1, a), (a, a + 1), (c, (1 << 31) - 1), (c, (1 << 31) + 5), (c, 1),
        (val([0] * (L - 1) + [1]), 1), (big(rng, 2 * L), a), (e, d), (1, 1),
    ]
    if op in (4, 5):
        base = [(c, a), (a, 0), (c, e), (a, c), (c, d), (c, 1), (a, a), (0, a), (big(rng, 2 * L), a), (c, (1 << 31) - 1),
                (c, 1 << 32), (e, 0), (0, 0), (a * c, a), (a * c + 1, c), (c, (1 << 31) + 5)] + base
    if op in (1, 2):
        # subtraction (and addition of opposite signs): the subtrahend equal to the low digits of the minuend, to the
        # minuend minus a power of the digit base, … — the shapes where a borrow does or does not leave the common part
        lowj = lambda x, j: x % (1 << (64 * j))
        base = [(c, a), (a, c), (a, a), (a + 1, a), (a, a + 1), (0, e), (val([0] * L + [1]), 1),
                (a, lowj(a, 1)), (a, lowj(a, 2)), (c, lowj(c, L)), (c, lowj(c, L) + 1), (lowj(a, 3), a), (a, a - lowj(a, 2)),
                (a, a - (1 << 64)), (a - (1 << 128), a), (c, c >> 64), (val([5, 7, 9]), val([5, 7])), (val([5, 7]), val([5, 7, 9]))] + base
    if op in (6, 7, 8):
        # bit operators: operands whose two's-complement carry runs through whole digits (powers of the digit
        # base, B^j - 1, low zero digits) with unequal lengths, so the in-place kernels that reuse one
        # operand's buffer see every carry/extension case; signs are applied below
        Bj = [1 << (64 * j) for j in (1, 2, 3, 5)]
        base = [(1, Bj[0]), (Bj[0], 1), (1, Bj[1]), (Bj[1], Bj[0]), (Bj[0] - 1, Bj[1]), (Bj[1], Bj[0] - 1), (Bj[2], Bj[2]),
                (Bj[0] + 1, Bj[2]), (Bj[3], 3), (3, Bj[3]), (Bj[1] - 1, Bj[1] - 1), (a << 128, e), (e, a << 128),
                (a << 64, c), (c, a << 64), (Bj[2] - Bj[0], Bj[1]), (2, Bj[0]), (Bj[0], 2)] * 4 + base
    # every base pair, for BigInt in all four sign combinations (a kernel chosen by the sign pair and by which operand is
    # longer must meet every special shape: a rotating sample made detection a matter of luck), then noisy copies
    out = []
    uniq = []
    for p_ in base:
        if p_ not in uniq:
            uniq.append(p_)
    for (x, y) in uniq:
        if k == 2:
            for sx, sy in ((1, 1), (-1, 1), (1, -1), (-1, -1)):
                out.append((sx * x, sy * y))
        else:
            out.append((x, y))
    i = 0
    while len(out) < n:
        x, y = uniq[i % len(uniq)]
        x = x ^ rng.randrange(1 << 60) if x else x
        if k == 2:
            x, y = rng.choice([1, -1]) * x, rng.choice([1, -1]) * y
        out.append((x, y))
        i += 1
    return out

def wb(k, v):
    return wu(v) if k == 1 else wi(v)

# ---------------------------------------------------------------------------------------------

def shift_pairs(rng, k, op, t, n):
    mx, mn = smax(t), smin(t)
    amts = [0, 1, 63, 64, 65, 127, 7, 128, 200, 640, 4096, 31, 32, 33, 1000, 129]
    amts = [a for a in amts if a <= mx]
    L = 40 + rng.randrange(10)
    out = []
    def bigs_for(amt):
        z = max(0, amt + rng.choice([-1, 0, 0, 1, 2]))
        return [big(rng, L), (2 * rng.randrange(1 << 62) + 1) << z, 1 << amt if amt < 70000 else 1, rng.randrange(1, B), 1,
                big(rng, 2), (1 << z) if z < 70000 else 1, big(rng, 3, "ones")]
    i = 0
    specials = []
    if t in SGN:
        specials += [(big(rng, 3), -1), (0, mn), (big(rng, L), mn), (1, -1)]
    # huge amounts: shr always fine, shl only for a zero operand
    if mx > 70000:
        if op == 10:
            specials += [(big(rng, L), mx), (1, mx), (big(rng, 2), mx - 1), (big(rng, 3), 1 << 20), (big(rng, 2), (mx >> 1) + 1)]
            if mx > MAX:
                specials += [(big(rng, 3), 1 << 64), (big(rng, 3), (1 << 64) + 63), (big(rng, 3), (1 << 70))]
        else:
            specials += [(0, mx), (0, mx - 1)]
            if mx > (1 << 70):
                # `(shift / 64).to_usize().expect("capacity overflow")`: the digit count no longer fits usize
                # (amount >= 2^70) and the operand is non-zero -> documented panic, nothing is allocated
                specials += [(1, 1 << 70), (big(rng, 2), mx), (3, (1 << 70) + 63), (big(rng, L), (1 << 100) + 64)]
    specials += [(0, 0), (0, 5)]
    while len(out) < n:
        if i < len(specials) and i % 2 == 0:
            x, a = specials[i // 2] if i // 2 < len(specials) else specials[-1]
        else:
            a = amts[i % len(amts)]
            bs = bigs_for(a)
            x = bs[(i // 2) % len(bs)]
        if k == 2 and x:
            x = -x if (i % 3 != 1) else x
        out.append((x, a))
        i += 1
    return out

def pow_pairs(rng, k, t, n):
    mx = smax(t) if t != 13 else (1 << 200)
    out = []
    bases = [0, 1, 2, 3, 10, MAX, B, big(rng, 2), big(rng, 3), 7, 1 << 40, 255]
    exps = [0, 1, 2, 3, 5, 8, 16, 31, 64, 6, 100, 255]
    i = 0
    while len(out) < n:
        x = bases[i % len(bases)]
        e = exps[(i * 5 + i // len(bases)) % len(exps)]
        if x > 3:
            e = min(e, max(1, 20000 // x.bit_length()))
        else:
            e = [e, e, 1000, 4097][i % 4] if x >= 2 else e
        if x <= 1 and i % 2 == 0:
            e = rng.choice([mx, mx - 1, 1 << 63, (1 << 64) + 1, (1 << 128), (1 << 128) + 1, (1 << 64) - 1])
        if x >= 2 and t == 13 and i % 5 == 4:
            e = (1 << 128) + rng.randrange(4)     # documented "memory overflow" panic
        e = min(e, mx)
        if k == 2 and i % 2 == 1:
            x = -x
        out.append((x, e))
        i += 1
    return out

def rem_assign_pairs(rng, t, n):
    mx, mn, bts = smax(t), smin(t), BITS[t]
    S = scalar_classes(rng, t)
    half = 1 << (bts - 1)
    out = []
    i = 0
    while len(out) < n:
        s = S[i % len(S)]
        a = abs(s)
        divs = [half, 0, mx, mx + 1, a, a + 1, 3, 1, half - 1, half + 1, B, 7, max(a - 1, 0), 1 << bts, big(rng, 3), 2,
                (1 << bts) - 1, big(rng, 40), a // 2 + 1, 10]
        d = divs[(i + i // len(S)) % len(divs)]
        out.append((s, d))
        i += 1
    return out

def iter_items(rng, k, t, op, n_lists):
    out = []
    for j in range(n_lists):
        ln = [0, 1, 2, 3, 5, 8][j % 6]
        items = []
        for _ in range(ln):
            if t == 0:
                v = rng.choice([0, 1, rng.randrange(B), big(rng, 2), big(rng, 5), big(rng, 40), MAX, B])
                if op == 17 and v == 0 and rng.randrange(3):
                    v = 3
                if k == 2 and rng.randrange(2):
                    v = -v
                items.append(wb(k, v))
            else:
                S = scalar_classes(rng, t)
                v = rng.choice(S)
                if op == 17 and v == 0 and rng.randrange(3):
                    v = smax(t)
                items.append(ws(t, v))
        out.append(items)
    return out

def gen(rng, tier):
    N = 100 if tier == "thorough" else 12
    reqs = []
    groups = {}
    def group(key, mk):
        if key not in groups:
            groups[key] = [mk(), 0]
        return groups[key]
    def take(g, n):
        lst, pos = g
        out = [lst[(pos + i) % len(lst)] for i in range(n)]
        g[1] = pos + n
        return out
    for i in all_forms():
        k, op, shape, t, var = decode(i)
        if shape in (0, 4) and op <= 8:
            g = group((k, op, "bb"), lambda: bigbig_pairs(rng, k, op, 8 * N))
            # the whole list for every form (there are only ~100 big∘big forms)
            for (x, y) in take(g, len(g[0])):
                reqs.append("C10 form %d %s %s" % (i, wb(k, x), wb(k, y)))
        elif op in (12, 13, 14, 15):
            src = {12: 1, 13: 2, 14: 3, 15: 4}[op]
            for (x, y) in bigbig_pairs(rng, k, src, 2 * N):
                reqs.append("C10 form %d %s %s" % (i, wb(k, x), wb(k, y)))
        elif op <= 5 and shape in (1, 2, 3):
            g = group((k, op, t, shape), lambda: pair_list(rng, t, k, 16 if N > 12 else 3, 40))
            for (s, m) in take(g, N):
                # zero divisors on the scalar side are in the scalar classes; on the big side rel "zero"
                if shape == 2:
                    reqs.append("C10 form %d %s %s" % (i, ws(t, s), wb(k, m)))
                else:
                    reqs.append("C10 form %d %s %s" % (i, wb(k, m), ws(t, s)))
            # two-digit scalar divisors on the rare windows of Knuth's algorithm D (see gens/c03.py core_pairs): the
            # u128 / i128 division forms may have a dedicated two-digit routine (C10-x1)
            if op in (4, 5) and NAMES[t] in ("u128", "i128") and shape != 2:
                def knuth2():
                    import c03 as _c03
                    out = []
                    for tag, a, b in _c03.core_pairs(rng, 2, ["maxlow", "corr", "corr2", "b1zero", "min", "allmax", "rand"]):
                        sh = rng.choice([0, 0, 1, 7, 63]) if NAMES[t] == "u128" else rng.choice([1, 2, 9, 62])
                        d, aa = b >> sh, a >> sh
                        if d >= (1 << 64) and d <= smax(t):
                            out.append((aa, d))
                    rng.shuffle(out)
                    return out or [(1 << 191, (1 << 126) + (1 << 64) - 1)]
                g2 = group((k, "knuth2", t), knuth2)
                for (aa, d) in take(g2, len(g2[0])):      # the whole list for every form: no rotating sample
                    x = aa if k == 1 else rng.choice([aa, -aa])
                    sd = d if (k == 1 or NAMES[t] == "u128" or rng.randrange(2)) else -d
                    reqs.append("C10 form %d %s %s" % (i, wb(k, x), ws(t, sd)))
        elif shape == 5:
            g = group((k, op, t, shape), lambda: rem_assign_pairs(rng, t, 4 * N))
            for (s, d) in take(g, N):
                reqs.append("C10 form %d %s %s" % (i, ws(t, s), wu(d)))
        elif op in (9, 10):
            g = group((k, op, t, shape), lambda: shift_pairs(rng, k, op, t, 4 * N))
            for (x, a) in take(g, N):
                reqs.append("C10 form %d %s %s" % (i, wb(k, x), ws(t, a)))
        elif op == 11:
            g = group((k, op, t), lambda: pow_pairs(rng, k, t, 4 * N))
            for (x, e) in take(g, N):
                reqs.append("C10 form %d %s %s" % (i, wb(k, x), wu(e) if t == 13 else ws(t, e)))
            # every operand form has its own `exp == 0` / `is_one` / `is_zero` short-cuts (`pow_impl!`, `Pow<&BigUint>`,
            # NB.PowD.powVV/powRV/powBigVR/powBigRR): 0^0, 1^0, 0^1, x^0, x^1 on EVERY form id
            for (x, e) in [(0, 0), (1, 0), (0, 1), (2, 0), (big(rng, 2), 0), (3, 1)]:
                if k == 2 and x > 1:
                    x = -x
                reqs.append("C10 form %d %s %s" % (i, wb(k, x), wu(e) if t == 13 else ws(t, e)))
        elif shape == 6:
            for items in iter_items(rng, k, t, op, N):
                reqs.append(("C10 form %d %s" % (i, " ".join(items))).rstrip())
        else:
            raise ValueError("no generator for form %d" % i)
    reqs += digit_cells(rng, tier)
    reqs += checked_trait_forms(rng, N)
    return reqs

def checked_trait_forms(rng, N):
    """api-coverage block: `tform` = the checked_* forms through the num-traits TRAIT impls (trait-qualified call;
    for BigInt the `form` ids reach the inherent methods instead).  Same operand classes as the `form` ids:
    large / equal / zero operands, underflow for BigUint::checked_sub, zero divisors, all sign pairs."""
    out = []
    for k in (1, 2):
        for op in (12, 13, 14, 15):
            src = {12: 1, 13: 2, 14: 3, 15: 4}[op]
            for (x, y) in bigbig_pairs(rng, k, src, 2 * N):
                out.append("C10 tform %d %s %s" % (fid(k, op, 0, 0, 3), wb(k, x), wb(k, y)))
    return out

def digit_cells(rng, tier):
    """the case splits that exist only in the DIGIT-level leaves (NB.Model.ScalarD), hit on every run:
    two-digit scalar (`mul3(&self.data, &[lo, hi])`, `div_rem(self, From::from(other))` with a 2-digit
    divisor, normalised or not) × big operand with 0 / 1 / 2 / 3 / many digits (the digit-count match of
    scalar / big, `to_T`, `cmp_slice` against `From::from(other)`), lo = 0, hi top bit set, equality."""
    out = []
    M128 = (1 << 128) - 1
    for k in (1, 2):
        for t in ([5] if k == 1 else [5, 11]):
            mx, mn = smax(t), smin(t)
            scal = [B, B + 1, mx, (1 << 96) + 5, 3 << 100, (1 << 126) + (1 << 64) - 1]
            if t == 11:
                scal += [mn, -(B + 1), -(3 << 100)]
            if tier == "thorough":
                scal += [rng.randrange(B, mx + 1) for _ in range(6)]
            j = 0
            for op in (1, 2, 3, 4, 5):
                for shape in (1, 2, 3):
                    i = fid(k, op, shape, t, 0)
                    for s in scal:
                        a = abs(s)
                        bigs = [0, 3, MAX, a - 1, a, a + 1, B, M128, (1 << 128) + 2, big(rng, 3), big(rng, 40)]
                        if tier == "thorough":
                            bigs += [big(rng, 2), big(rng, 2) | (1 << 127), a * 3 + 1, a * a + 5, big(rng, 7)]
                        for m in bigs:
                            if k == 2:
                                m = -m if (j % 3 == 1) else m
                            j += 1
                            if shape == 2:
                                out.append("C10 form %d %s %s" % (i, ws(t, s), wb(k, m)))
                            else:
                                out.append("C10 form %d %s %s" % (i, wb(k, m), ws(t, s)))
    # scalar %= BigUint: divisor with 0 / 1 / 2 / 3 digits against every scalar type (digit-level `to_T`,
    # `BigInt::from(*self).magnitude() == other` as digit-vector equality)
    for t in ALL:
        mx, mn, bts = smax(t), smin(t), BITS[t]
        for s in [mn, mx, 0, 1] + ([-1] if t in SGN else []):
            for d in [0, 1, abs(s), abs(s) + 1, mx, mx + 1, 1 << bts, MAX, B, M128, M128 + 1, (1 << 128) + 7]:
                out.append("C10 form %d %s %s" % (fid(1, 5, 5, t, 0), ws(t, s), wu(d)))
    return out

# ---------------------------------------------------------------------------------------------
# special step (tools/props.py): cross-check the form table with the harness, report coverage

def special(ctx):
    binp = ctx["bins"].get("release") or (list(ctx["bins"].values())[0] if ctx["bins"] else None)
    if not binp:
        return {"errors": ["C10: no harness binary for the form table"]}
    raw = ctx["run_harness"](binp, ["C10 forms"])
    line = (raw[0] or "").split(" # ")[0]
    errors, cov = [], {}
    if not line.startswith("ok "):
        return {"errors": ["C10: harness did not print the form table: %r" % line[:80]]}
    _, cnt, body = line.split(" ", 2)
    table = dict(e.split("=", 1) for e in body.split(";"))
    have = {int(k) for k in table}
    want = set(all_forms())
    if have != want:
        errors.append("C10: form table differs from the generator's list: only in harness %s, only in generator %s"
                      % (sorted(have - want)[:8], sorted(want - have)[:8]))
    cov["forms"] = len(have)
    cov["forms_by_type"] = {"BigUint": sum(1 for i in have if i // 1000000 == 1), "BigInt": sum(1 for i in have if i // 1000000 == 2)}
    cov["form_table"] = {str(k): table[str(k)] for k in sorted(have)}
    cov["operand_tuples_per_form"] = 100 if ctx["tier"] == "thorough" else 12
    return {"coverage": cov, "errors": errors}
