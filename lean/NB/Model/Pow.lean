/-
  NB.Model.Pow — value-level model of src/biguint/power.rs (`pow_impl!`, `Pow<&BigUint>`) and
  src/bigint/power.rs (`powsign`, `pow_impl!`).

  The Rust code multiplies BigUint values with `*`; the model uses `Nat` multiplication (layering
  justified by C02) and keeps the control flow of the macro body: the `exp == 0` return, the
  trailing-zero squaring loop, the `exp == 1` return, and the accumulate loop.  The macro is
  instantiated for u8, u16, u32, u64, usize, u128 with one and the same body; the exponent only ever
  shrinks, so the width of the exponent type plays no role in the loop (it only bounds the fuel).
  Loops take fuel; `powFuel e` (= bit length of `e`) is proved sufficient (NB.Props.C12).
  The four operand forms (base by value / reference × exponent by value / reference) are modelled
  separately because `Pow<$T> for &BigUint` has its own `exp == 0` short-cut.
-/
import NB.Base
import NB.Model.IntVal
namespace NB.Pow
open NB.IntVal

/-- bit length of the exponent: bound on the number of loop iterations -/
def powFuel (e : Nat) : Nat := if e = 0 then 0 else Nat.log2 e + 1

/-- `while exp & 1 == 0 { base = &base * &base; exp >>= 1; }` -/
def sqLoop : Nat → Nat → Nat → Except Panic (Nat × Nat)
  | 0, _, _ => .error (.internal "fuel")
  | fuel + 1, base, exp =>
    if exp &&& 1 = 0 then sqLoop fuel (base * base) (exp >>> 1)
    else .ok (base, exp)

/-- `while exp > 1 { exp >>= 1; base = &base * &base; if exp & 1 == 1 { acc *= &base; } }` -/
def accLoop : Nat → Nat → Nat → Nat → Except Panic Nat
  | 0, _, _, _ => .error (.internal "fuel")
  | fuel + 1, base, exp, acc =>
    if exp > 1 then
      let exp := exp >>> 1
      let base := base * base
      let acc := if exp &&& 1 = 1 then acc * base else acc
      accLoop fuel base exp acc
    else .ok acc

/-- `impl Pow<$T> for BigUint` -/
def powVV (x e : Nat) : Except Panic Nat :=
  if e = 0 then .ok 1 else
  match sqLoop (powFuel e) x e with
  | .error p => .error p
  | .ok (base, exp) =>
    if exp = 1 then .ok base else
    accLoop (powFuel e) base exp base

/-- `impl Pow<&$T> for BigUint`: `Pow::pow(self, *exp)` -/
def powVR (x e : Nat) : Except Panic Nat := powVV x e

/-- `impl Pow<$T> for &BigUint`: `if exp == 0 { return one }; Pow::pow(self.clone(), exp)` -/
def powRV (x e : Nat) : Except Panic Nat :=
  if e = 0 then .ok 1 else powVV x e

/-- `impl Pow<&$T> for &BigUint`: `Pow::pow(self, *exp)` -/
def powRR (x e : Nat) : Except Panic Nat := powRV x e

/-- operand form: base by value/reference, exponent by value/reference -/
inductive Form where
  | vv | vr | rv | rr
  deriving DecidableEq, Repr

def powPrim : Form → Nat → Nat → Except Panic Nat
  | .vv => powVV | .vr => powVR | .rv => powRV | .rr => powRR

/-! ### BigUint exponent -/

/-- `impl Pow<&BigUint> for BigUint` (`to_u64` is `Some` iff `exp < 2^64`, `to_u128` iff `< 2^128`) -/
def powBigVR (x e : Nat) : Except Panic Nat :=
  if x = 1 ∨ e = 0 then .ok 1
  else if x = 0 then .ok 0
  else if e < B then powVV x e
  else if e < B * B then powVV x e
  else
    -- `panic!("memory overflow")`
    .error .capacity

/-- `impl Pow<BigUint> for BigUint` -/
def powBigVV (x e : Nat) : Except Panic Nat := powBigVR x e

/-- `impl Pow<&BigUint> for &BigUint` -/
def powBigRR (x e : Nat) : Except Panic Nat :=
  if x = 1 ∨ e = 0 then .ok 1
  else if x = 0 then .ok 0
  else powBigVR x e

/-- `impl Pow<BigUint> for &BigUint` -/
def powBigRV (x e : Nat) : Except Panic Nat := powBigRR x e

def powBig : Form → Nat → Nat → Except Panic Nat
  | .vv => powBigVV | .vr => powBigVR | .rv => powBigRV | .rr => powBigRR

/-! ### BigInt (value level: `Int`; sign = sign of the value, `data` = `natAbs`) -/

/-- `fn powsign<T: Integer>(sign, other: &T) -> Sign` -/
def powsign (sign : Sign) (other : Nat) : Sign :=
  if other = 0 then .plus
  else if sign ≠ .minus ∨ other % 2 = 1 then sign
  else sign.neg

/-- bigint `pow_impl!($T)`: `BigInt::from_biguint(powsign(self.sign, &rhs), self.data.pow(rhs))`
    (by-value base uses `self.data.pow`, by-reference base uses `Pow::pow(&self.data, rhs)`) -/
def bigintPow (f : Form) (x : Int) (e : Nat) : Except Panic Int :=
  let s := powsign (signOf x) e
  match powPrim f x.natAbs e with
  | .error p => .error p
  | .ok m => .ok (fromBiguint s m)

/-- bigint `pow_impl!(BigUint)` -/
def bigintPowBig (f : Form) (x : Int) (e : Nat) : Except Panic Int :=
  let s := powsign (signOf x) e
  match powBig f x.natAbs e with
  | .error p => .error p
  | .ok m => .ok (fromBiguint s m)

end NB.Pow
