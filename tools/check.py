#!/usr/bin/env python3
"""Orchestrator: `tools/check.py <ID> [--tier quick|thorough] [--replay FILE]`.

One run = (1) regenerate NB/Gen from /repo/src, (2) re-elaborate the property's Lean theorems
and audit their axioms, (3) rebuild the Rust harness against /repo's working tree, (4) run the
corpus and the generated request streams through the real crate and through the compiled Lean
model+oracle, (5) three-way comparison, search/shrink, known-findings filter, (6) evidence JSON.

Exit 0: property held on everything explored.  Exit 1 + `VIOLATION property=<id> replay=<path>`:
a violating input was found, or a proof obligation / the correspondence no longer checks
(`... no-failing-input-found` when no concrete violating input turned up).  Exit 2: the
machinery itself is broken (never a VIOLATION line).
"""
import argparse, hashlib, importlib, json, os, random, re, signal, subprocess, sys, time

VERIF = os.path.dirname(os.path.dirname(os.path.abspath(__file__)))
sys.path.insert(0, os.path.join(VERIF, "tools"))
sys.path.insert(0, os.path.join(VERIF, "tools", "gens"))
import extract  # noqa: E402
import props    # noqa: E402

LEAN = os.path.join(VERIF, "lean")
HARNESS = os.path.join(VERIF, "harness")
BUILD = os.path.join(VERIF, "build")
NBDRV = os.path.join(LEAN, ".lake", "build", "bin", "nbdrv")
ALLOWED_AXIOMS = {"propext", "Classical.choice", "Quot.sound"}
FORBIDDEN = re.compile(r"\bsorry\b|\badmit\b|^\s*axiom\s|native_decide|implemented_by|\bunsafe\s|maxHeartbeats\s+0|bv_decide")

def log(*a):
    print(*a, file=sys.stderr, flush=True)

def sh(cmd, cwd=None, timeout=None, env=None, inp=None):
    e = dict(os.environ)
    e["CARGO_NET_OFFLINE"] = "true"
    if env:
        e.update(env)
    p = subprocess.run(cmd, cwd=cwd, env=e, input=inp, stdout=subprocess.PIPE, stderr=subprocess.STDOUT,
                       timeout=timeout, text=True)
    return p.returncode, p.stdout

# ---------------------------------------------------------------------------------------------
# Lean side

def strip_comments(src):
    src = re.sub(r"/-.*?-/", "", src, flags=re.S)
    return re.sub(r"--.*", "", src)

def lean_sources():
    out = []
    for root, _, files in os.walk(LEAN):
        if ".lake" in root:
            continue
        for f in files:
            if f.endswith(".lean"):
                out.append(os.path.join(root, f))
    return out

def grep_forbidden():
    hits = []
    for p in lean_sources():
        src = strip_comments(open(p).read())
        for i, line in enumerate(src.split("\n")):
            if FORBIDDEN.search(line):
                hits.append("%s:%d:%s" % (os.path.relpath(p, LEAN), i + 1, line.strip()[:80]))
    return hits

def theorem_at(path, lineno):
    """name of the theorem/def enclosing a source line"""
    try:
        lines = open(path).read().split("\n")
    except OSError:
        return None
    for i in range(min(lineno, len(lines)) - 1, -1, -1):
        m = re.match(r"\s*(?:private\s+|protected\s+)?(?:theorem|lemma|def|example|instance)\s+([^\s:({\[]+)?", lines[i])
        if m:
            return m.group(1) or "example"
    return None

def lean_build(modules):
    """returns (ok, failures[list of dict], log)"""
    t0 = time.time()
    rc, out = sh(["lake", "build"] + modules + ["nbdrv"], cwd=LEAN, timeout=3000)
    fails = []
    if rc != 0:
        for m in re.finditer(r"error: ([^\s:]+\.lean):(\d+):(\d+): (.*)", out):
            path = os.path.join(LEAN, m.group(1))
            fails.append({"file": m.group(1), "line": int(m.group(2)), "msg": m.group(4)[:200],
                          "theorem": theorem_at(path, int(m.group(2)))})
        if not fails:
            fails.append({"file": "?", "line": 0, "msg": out[-400:], "theorem": None})
    return rc == 0, fails, out, time.time() - t0

def theorems_in(module):
    """fully qualified names of the theorems declared in a module (tracks namespace/end)"""
    path = os.path.join(LEAN, module.replace(".", "/") + ".lean")
    src = strip_comments(open(path).read())
    ns, out = [], []
    for line in src.split("\n"):
        m = re.match(r"^\s*namespace\s+(\S+)", line)
        if m:
            ns.append(m.group(1)); continue
        m = re.match(r"^\s*end\s+(\S+)\s*$", line)
        if m and ns and ns[-1] == m.group(1):
            ns.pop(); continue
        m = re.match(r"^\s*(?:private\s+|protected\s+)?theorem\s+([^\s:({\[]+)", line)
        if m:
            name = m.group(1)
            if name.startswith("_root_."):
                out.append(name[len("_root_."):])
            else:
                out.append(".".join(ns + [name]))
    return out

def audit(pid, modules):
    """run #print axioms on every theorem of the property modules; returns dict name->axioms"""
    names = []
    for m in modules:
        for t in theorems_in(m):
            names.append((m, t))
    os.makedirs(os.path.join(BUILD, "audit"), exist_ok=True)
    path = os.path.join(BUILD, "audit", "Audit_%s.lean" % pid)
    with open(path, "w") as f:
        for m in modules:
            f.write("import %s\n" % m)
        # theorems are declared inside `namespace NB` (possibly nested); let Lean resolve them
        for m, t in names:
            f.write("#print axioms %s\n" % t)
    rc, out = sh(["lake", "env", "lean", path], cwd=LEAN, timeout=1200)
    res = {}
    text = out.replace("\n  ", " ").replace("\n ", " ")
    for m in re.finditer(r"'([^']+)' depends on axioms: \[([^\]]*)\]", text):
        res[m.group(1)] = [a.strip() for a in m.group(2).split(",") if a.strip()]
    for m in re.finditer(r"'([^']+)' does not depend on any axioms", text):
        res[m.group(1)] = []
    return rc, res, names, out

# ---------------------------------------------------------------------------------------------
# Rust side

def cargo_build(profile, hooks=True, features=None):
    cmd = ["cargo", "build", "--offline"]
    if profile == "release":
        cmd.append("--release")
    env = {}
    tdir = os.path.join(BUILD, "cargo" if hooks else "cargo-nohooks")
    env["CARGO_TARGET_DIR"] = tdir
    if not hooks:
        env["RUSTFLAGS"] = "-Aunexpected_cfgs"
        # config.toml's build.rustflags is overridden by RUSTFLAGS
    if features is not None:
        cmd += ["--no-default-features", "--features", features]
    rc, out = sh(cmd, cwd=HARNESS, timeout=1800, env=env)
    binp = os.path.join(tdir, "release" if profile == "release" else "debug", "nbharness")
    return rc, out, binp

def _limit_memory():
    """a request that makes the implementation allocate without bound (an iterator that never ends feeding a
    `collect`) must die quickly instead of filling the machine: 12 GiB of address space per harness process"""
    try:
        import resource
        resource.setrlimit(resource.RLIMIT_AS, (12 << 30, 12 << 30))
    except Exception:  # noqa: BLE001
        pass

def run_harness(binp, lines, timeout_per_batch=45, tags=False, extra_args=()):
    """run request lines; isolates crashes/timeouts to single lines. returns list of result strings"""
    results = [None] * len(lines)
    start = 0
    crashes = 0
    n_timeouts = 0
    while start < len(lines):
        chunk = lines[start:]
        cmd = [binp] + (["--tags"] if tags else []) + list(extra_args)
        if crashes:
            cmd.append("--flush")
        # a change that makes MANY requests hang must not turn the check into hours of waiting: after the first
        # time-out the per-batch budget shrinks, after six the rest of the stream is skipped (each time-out is already
        # reported as a disagreement)
        tpb = timeout_per_batch if n_timeouts == 0 else min(timeout_per_batch, 20)
        if n_timeouts >= 6:
            for i in range(start, len(lines)):
                results[i] = "skipped"
            break
        try:
            p = subprocess.run(cmd, input="\n".join(chunk) + "\n", stdout=subprocess.PIPE, stderr=subprocess.DEVNULL,
                               text=True, timeout=(tpb * (1 + len(chunk) // 20000)) if n_timeouts == 0 else tpb,
                               preexec_fn=_limit_memory)
            out = p.stdout.split("\n")
            if out and out[-1] == "":
                out.pop()
            rc = p.returncode
        except subprocess.TimeoutExpired as e:
            so = e.stdout or ""
            if isinstance(so, bytes):
                so = so.decode(errors="replace")
            out = so.split("\n")
            if out and out[-1] == "":
                out.pop()
            rc = "timeout"
        if rc == 0 and len(out) == len(chunk):
            results[start:] = out
            break
        crashes += 1
        if crashes == 1:
            continue  # rerun the same chunk with --flush to locate the line
        n = min(len(out), len(chunk) - 1)
        # complete lines only
        results[start:start + n] = out[:n]
        if rc == "timeout":
            cls = "timeout"
            n_timeouts += 1
        elif isinstance(rc, int) and rc < 0:
            try:
                cls = "fault:" + signal.Signals(-rc).name
            except ValueError:
                cls = "fault:%d" % -rc
        else:
            cls = "fault:exit%s" % rc
        results[start + n] = cls
        start = start + n + 1
        if crashes > 200:
            for i in range(start, len(lines)):
                results[i] = "skipped"
            break
    return results

def run_driver(lines, timeout=3000):
    p = subprocess.run([NBDRV], input="\n".join(lines) + "\n", stdout=subprocess.PIPE, stderr=subprocess.PIPE, text=True,
                       timeout=timeout)
    out = p.stdout.split("\n")
    if out and out[-1] == "":
        out.pop()
    if p.returncode != 0 or len(out) != len(lines):
        raise RuntimeError("driver failed rc=%s lines=%d/%d stderr=%s" % (p.returncode, len(out), len(lines), p.stderr[-300:]))
    res = []
    for o in out:
        if " | " in o:
            m, orc = o.split(" | ", 1)
        else:
            m, orc = o, o
        res.append((m, orc))
    return res

# ---------------------------------------------------------------------------------------------
# comparison, shrinking

def split_tags(r):
    if r is None:
        return None, ""
    if " # " in r:
        a, b = r.split(" # ", 1)
        return a, b
    return r, ""

DOCUMENTED_PANIC = re.compile(r"^panic (?!internal:|custom:)\S+$")

def same(r, o):
    """equality of an implementation answer and a model/oracle answer, up to the wording of a panic message the
    crate wrote itself: `panic custom:<text>` stands for whichever documented class is expected"""
    if r == o:
        return True
    return bool(r) and bool(o) and r.startswith("panic custom:") and DOCUMENTED_PANIC.match(o) is not None

def compare(lines, impl, mo):
    """returns list of (idx, kind) kind in impl_oracle, model_oracle, impl_model"""
    dis = []
    for i, (l, r, (m, o)) in enumerate(zip(lines, impl, mo)):
        if r == "unsupported" or m == "unsupported" or r == "skipped":
            continue
        if o == "-":
            if not same(r, m):
                dis.append((i, "impl_model"))
            continue
        if not same(r, o):
            dis.append((i, "impl_oracle"))
        elif m != o:
            dis.append((i, "model_oracle"))
    return dis

LIMB_TOK = re.compile(r"^([+\-0]?)((?:[0-9a-f]+(?:,[0-9a-f]+)*)|\.)$")

def shrink_candidates(line):
    toks = line.split()
    raw = toks[1].startswith("raw.")
    cands = []
    for ti in range(2, len(toks)):
        m = LIMB_TOK.match(toks[ti])
        if not m:
            continue
        sign, body = m.group(1), m.group(2)
        limbs = [] if body == "." else body.split(",")
        if not limbs:
            continue
        def emit(newlimbs):
            nl = list(newlimbs)
            s = sign
            if not raw:
                while nl and int(nl[-1], 16) == 0:
                    nl.pop()
                if sign and not nl:
                    s = "0"
                if sign == "0":
                    return
            t = s + (",".join(nl) if nl else ".")
            if t != toks[ti]:
                cands.append(" ".join(toks[:ti] + [t] + toks[ti + 1:]))
        n = len(limbs)
        emit(limbs[: n // 2]); emit(limbs[n // 2:]); emit(limbs[:-1]); emit(limbs[1:])
        for k in range(min(n, 12)):
            j = k if k < 6 else n - 1 - (k - 6)
            if 0 <= j < n:
                for v in ("0", "1"):            # never a larger digit: a shrink step must not grow the cost
                    if limbs[j] != v and int(limbs[j], 16) > int(v, 16):
                        emit(limbs[:j] + [v] + limbs[j + 1:])
                emit(limbs[:j] + limbs[j + 1:])
    # byte strings, u32 word lists, decimal scalars
    for ti in range(2, len(toks)):
        t = toks[ti]
        def put(nt):
            if nt != t:
                cands.append(" ".join(toks[:ti] + [nt] + toks[ti + 1:]))
        if re.fullmatch(r"x(?:[0-9a-f]{2})+", t):
            bs = [t[1 + 2 * i: 3 + 2 * i] for i in range((len(t) - 1) // 2)]
            n = len(bs)
            put("x" + "".join(bs[: n // 2])); put("x" + "".join(bs[n // 2:])); put("x" + "".join(bs[:-1])); put("x" + "".join(bs[1:]))
            for j in range(min(n, 8)):
                put("x" + "".join(bs[:j] + bs[j + 1:]))
        elif re.fullmatch(r"w[0-9a-f]+(?:,[0-9a-f]+)*", t):
            ws = t[1:].split(",")
            n = len(ws)
            put("w" + ",".join(ws[: n // 2])); put("w" + ",".join(ws[n // 2:])); put("w" + ",".join(ws[:-1])); put("w" + ",".join(ws[1:]))
        elif re.fullmatch(r"(?:[a-z]+[0-9]*:)?-?[0-9]+", t) and ti >= 2:
            pre, num = (t.split(":", 1) + [None])[:2] if ":" in t else (None, t)
            try:
                v = int(num)
            except (TypeError, ValueError):
                continue
            for nv in (0, 1, v // 2, v - 1 if v > 0 else v + 1):
                put((pre + ":" if pre else "") + str(nv))
    seen, out = set(), []
    for c in cands:
        if c not in seen:
            seen.add(c); out.append(c)
    return out

def still_fails(binp, cands, extra_args=()):
    if not cands:
        return None
    impl = run_harness(binp, cands, timeout_per_batch=30, extra_args=extra_args)
    try:
        mo = run_driver(cands, timeout=60)
    except subprocess.TimeoutExpired:
        mo = []
        for c in cands:                      # a candidate the model cannot evaluate quickly is not a shrink step
            try:
                mo.append(run_driver([c], timeout=10)[0])
            except subprocess.TimeoutExpired:
                mo.append(("unsupported", "unsupported"))
    for c, r, (m, o) in zip(cands, impl, mo):
        if r in ("unsupported", "skipped", "timeout", None) or m == "unsupported" or o == "-":
            continue
        if not same(r, o):
            return c, r, m, o
    return None

def shrink(binp, line, r, m, o, rounds=40, extra_args=(), budget_s=75):
    """greedy shrinking, bounded in rounds and in wall-clock time (a replay need not be minimal)"""
    cur = (line, r, m, o)
    t_end = time.time() + budget_s
    for _ in range(rounds):
        if time.time() > t_end:
            break
        nxt = still_fails(binp, shrink_candidates(cur[0]), extra_args)
        if nxt is None:
            break
        cur = nxt
    return cur

# ---------------------------------------------------------------------------------------------

def load_known(pid):
    known, fixed = [], []
    try:
        for l in open(os.path.join(VERIF, "known_findings.txt")):
            l = l.strip()
            if l.startswith("known: property=%s " % pid):
                known.append(l[len("known: property=%s " % pid):])
            elif l.startswith("fixed: property=%s " % pid):
                fixed.append(l)
    except OSError:
        pass
    return known, fixed

def write_replay(pid, obj):
    d = os.path.join(VERIF, "evidence", "replays")
    os.makedirs(d, exist_ok=True)
    h = hashlib.sha1(json.dumps(obj, sort_keys=True).encode()).hexdigest()[:10]
    p = os.path.join(d, "%s-%s.json" % (pid, h))
    with open(p, "w") as f:
        json.dump(obj, f, indent=1)
    return p

def nontrivial(line):
    toks = line.split()
    mx = 0
    for t in toks[2:]:
        m = LIMB_TOK.match(t)
        if m and m.group(2) != ".":
            mx = max(mx, m.group(2).count(",") + 1)
        elif t.startswith("x") or t.startswith("w"):
            mx = max(mx, len(t) // 8)
        elif len(t) > 12:
            mx = max(mx, 2)
    return mx >= 2

def main():
    ap = argparse.ArgumentParser()
    ap.add_argument("pid")
    ap.add_argument("--tier", default=os.environ.get("VERIF_TIER", "quick"))
    ap.add_argument("--replay")
    ap.add_argument("--no-proofs", action="store_true", help="development: skip the Lean proof build")
    args = ap.parse_args()
    pid, tier = args.pid, args.tier
    if tier not in ("quick", "thorough"):
        tier = "quick"
    seed = int(os.environ.get("VERIF_SEED", "1") or "1")
    cfg = props.PROPS[pid]
    t0 = time.time()
    machinery_errors = []
    violations = []      # (replay path, suffix)
    known_hits = []
    notes = []

    # steps 1-3 write shared files (NB/Gen, .lake, the cargo target directory): checks started in parallel take turns
    import fcntl
    os.makedirs(os.path.join(VERIF, "build"), exist_ok=True)
    build_lock = open(os.path.join(VERIF, "build", ".build.lock"), "w")
    fcntl.flock(build_lock, fcntl.LOCK_EX)

    # 1. translator
    info = extract.main()
    if info["stale"]:
        notes.append("extraction stale: " + ", ".join(info["stale"]))
    notes += info["notes"] if pid == "C15" else []

    # 2. Lean proofs
    modules = cfg.get("lean", [])
    proof_ok, proof_fails, build_log, lean_s = True, [], "", 0.0
    axioms, thm_names = {}, []
    if not args.no_proofs:
        proof_ok, proof_fails, build_log, lean_s = lean_build(modules)
        bad = grep_forbidden()
        if bad:
            machinery_errors.append("forbidden token in Lean sources: " + "; ".join(bad[:5]))
        if proof_ok and modules:
            rc, axioms, thm_names, aout = audit(pid, modules)
            for (m, t) in thm_names:
                full = t
                if full not in axioms:
                    machinery_errors.append("no #print axioms result for %s" % full)
                else:
                    extra = set(axioms[full]) - ALLOWED_AXIOMS
                    if extra:
                        machinery_errors.append("theorem %s uses axioms %s" % (full, sorted(extra)))
        if proof_ok and modules and tier == "thorough":
            # independent re-check of the compiled proofs by the toolchain's leanchecker
            for m in modules:
                rc, out = sh(["lake", "env", "leanchecker", m], cwd=LEAN, timeout=3000)
                if rc != 0:
                    machinery_errors.append("leanchecker rejected %s: %s" % (m, out[-300:]))
                else:
                    notes.append("leanchecker re-checked %s" % m)
    else:
        rc, out = sh(["lake", "build", "nbdrv"], cwd=LEAN, timeout=3000)
        if rc != 0:
            machinery_errors.append("driver build failed: " + out[-300:])

    if not os.path.exists(NBDRV):
        # the driver itself could not be built (a generated definition no longer elaborates)
        rc, out = sh(["lake", "build", "nbdrv"], cwd=LEAN, timeout=3000)

    # 3. harness builds.  Fall-backs (each only noted, never a violation by itself): without the optional
    #    arbitrary/quickcheck features (a feature-pair compile break is C16's subject), then without the hooks.
    bins = {}
    hooks_on = True
    for profile in cfg.get("profiles", ["release"]):
        rc, out, binp = cargo_build(profile, hooks=True)
        if rc != 0:
            rc, out2, binp = cargo_build(profile, hooks=True, features="std rand serde")
            if rc == 0:
                notes.append("harness built without the arbitrary/quickcheck features (%s): default feature set failed to compile" % profile)
        if rc != 0:
            hooks_on = False
            notes.append("hooked build failed (%s); internal hooks unavailable, falling back to public API only" % profile)
            rc, out, binp = cargo_build(profile, hooks=False)
            if rc != 0:
                rc, out, binp = cargo_build(profile, hooks=False, features="std rand serde")
            if rc != 0:
                machinery_errors.append("harness build failed (%s): %s" % (profile, out[-600:]))
                continue
        bins[profile] = binp

    fcntl.flock(build_lock, fcntl.LOCK_UN)
    build_lock.close()

    # 4. requests
    rng = random.Random(seed)
    corpus = []
    cpath = os.path.join(VERIF, "corpus", pid + ".txt")
    if os.path.exists(cpath):
        corpus = [l.strip() for l in open(cpath) if l.strip() and not l.startswith("#")]
    if args.replay:
        rp = json.load(open(args.replay))
        reqs = [rp["request"]] if rp.get("request") else []
        corpus = []
    else:
        reqs = []
        for g in cfg.get("gens", []):
            mod = importlib.import_module(g)
            reqs += mod.gen(rng, tier)
    if reqs and not args.replay:
        import genlib
        extra = genlib.augment_boundaries(reqs, random.Random(seed + 7))
        extra += genlib.augment_structured(reqs, random.Random(seed + 11), per_op=(120 if tier == "thorough" else 40))
        reqs += extra
    lines = corpus + reqs
    stats = {"requests": len(lines), "corpus": len(corpus)}
    samples = []
    counters = {"impl_vs_oracle": 0, "model_vs_oracle": 0, "impl_vs_model": 0, "unsupported": 0}
    streams = {}
    failing = []   # (line, impl, model, oracle, kind, profile)
    if lines and bins and os.path.exists(NBDRV) and not machinery_errors:
        try:
            mo = run_driver(lines)
        except Exception as e:  # noqa: BLE001
            machinery_errors.append(str(e))
            mo = None
        if mo is not None:
            runs = list(bins.items())
            if "release" in bins:
                # same binary, operands built with spare capacity (buffer-reuse / capacity-gated paths)
                runs.append(("release-spare", bins["release"]))
            for profile, binp in runs:
                raw = run_harness(binp, lines, tags=hooks_on, extra_args=(["--spare"] if profile == "release-spare" else []))
                impl, tags = [], []
                for r in raw:
                    a, b = split_tags(r)
                    impl.append(a); tags.append(b)
                tagtot = {}
                for tline in tags:
                    m = re.match(r"tags=([^ ]*)", tline)
                    if m and m.group(1):
                        for kv in m.group(1).split(","):
                            k, v = kv.split(":")
                            tagtot[k] = tagtot.get(k, 0) + 1
                stats["probe_hits_" + profile] = tagtot
                uns = sum(1 for r, (m, o) in zip(impl, mo) if r == "unsupported" or m == "unsupported")
                counters["unsupported"] += uns
                if not hooks_on:
                    pass
                elif uns:
                    bad = [l for l, r, (m, o) in zip(lines, impl, mo) if r == "unsupported" or m == "unsupported"][:3]
                    machinery_errors.append("unsupported requests (%d), e.g. %s" % (uns, bad))
                for i, kind in compare(lines, impl, mo):
                    counters[{"impl_oracle": "impl_vs_oracle", "model_oracle": "model_vs_oracle", "impl_model": "impl_vs_model"}[kind]] += 1
                    failing.append((lines[i], impl[i], mo[i][0], mo[i][1], kind, profile))
                hist = {}
                for r in impl:
                    k = (r or "?").split(" ")[0]
                    if k == "panic":
                        k = " ".join((r or "").split(" ")[:2])[:40]
                    elif k not in ("ok", "some", "none", "err", "unsupported", "timeout", "skipped", "tape-exhausted") and not k.startswith("fault"):
                        k = "value"
                    hist[k] = hist.get(k, 0) + 1
                stats["outcomes_" + profile] = hist
                if not samples:
                    step = max(1, len(lines) // 6)
                    for i in range(0, len(lines), step):
                        l = lines[i]
                        samples.append({"request": l if len(l) < 300 else l[:300] + "…", "impl": (impl[i] or "")[:120],
                                        "model": mo[i][0][:120], "oracle": mo[i][1][:120]})
            for l in lines:
                s = " ".join(l.split()[:2])
                streams[s] = streams.get(s, 0) + 1

    # 5. classify failures
    known, fixed = load_known(pid)
    reported = set()
    failing.sort(key=lambda f: (f[4] != "impl_oracle", len(f[0])))
    for (line, r, m, o, kind, profile) in failing[:40]:
        binp = bins.get(profile) or bins["release"]
        if kind == "impl_oracle":
            if len([v for v in violations if not v[1]]) >= 3:
                continue
            sl, sr, sm, so = shrink(binp, line, r, m, o, extra_args=(['--spare'] if profile == 'release-spare' else []))
            key = sl
            if key in reported:
                continue
            reported.add(key)
            if any(k == sl or k == line for k in known):
                known_hits.append(sl)
                continue
            path = write_replay(pid, {"property": pid, "kind": "failing-input", "profile": profile, "request": sl,
                                      "impl": sr, "oracle": so, "model": sm, "shrunk_from": line if line != sl else None,
                                      "seed": seed, "tier": tier})
            violations.append((path, ""))
        else:
            key = "corr:" + line
            if key in reported or len([v for v in violations if v[1]]) >= 3:
                continue
            reported.add(key)
            path = write_replay(pid, {"property": pid, "kind": "correspondence", "profile": profile, "request": line,
                                      "impl": r, "oracle": o, "model": m, "seed": seed, "tier": tier,
                                      "explanation": "implementation and oracle agree but the Lean model differs: the model no longer "
                                                     "describes the code (correspondence broken); no input violating the property found"})
            violations.append((path, " no-failing-input-found"))

    # 6. broken proof obligations: search with the thorough generators, then report
    if not proof_ok:
        found_input = any(not s for (_, s) in violations)
        if not found_input and tier == "quick" and bins and os.path.exists(NBDRV) and not args.replay:
            rng2 = random.Random(seed + 1)
            extra = []
            for g in cfg.get("gens", []):
                extra += importlib.import_module(g).gen(rng2, "thorough")
            extra = extra[:200000]
            try:
                mo2 = run_driver(extra)
                binp = bins.get("release") or list(bins.values())[0]
                impl2 = [split_tags(r)[0] for r in run_harness(binp, extra)]
                for i, kind in compare(extra, impl2, mo2):
                    if kind == "impl_oracle":
                        sl, sr, sm, so = shrink(binp, extra[i], impl2[i], mo2[i][0], mo2[i][1])
                        path = write_replay(pid, {"property": pid, "kind": "failing-input", "request": sl, "impl": sr,
                                                  "oracle": so, "model": sm, "found_by": "search after broken proof obligation"})
                        violations.append((path, ""))
                        found_input = True
                        break
            except Exception as e:  # noqa: BLE001
                notes.append("search after broken proof failed: %s" % e)
        if not found_input:
            path = write_replay(pid, {"property": pid, "kind": "proof-obligation", "failures": proof_fails,
                                      "explanation": "these Lean declarations no longer elaborate against the model regenerated "
                                                     "from the current source; no input violating the property was found"})
            violations.append((path, " no-failing-input-found"))

    # 7. property-specific extra step (C15 memory run, C16 feature builds, C20 work counts, …)
    extra_cov = {}
    if "special" in cfg and not args.replay:
        try:
            sp = cfg["special"](dict(pid=pid, tier=tier, seed=seed, bins=bins, lines=lines, verif=VERIF, info=info, hooks_on=hooks_on,
                                     run_harness=run_harness, run_driver=run_driver, write_replay=write_replay, sh=sh,
                                     cargo_build=cargo_build, known=known))
            extra_cov = sp.get("coverage", {})
            for v in sp.get("violations", []):
                violations.append(v)
            known_hits += sp.get("known_hits", [])
            machinery_errors += sp.get("errors", [])
            notes += sp.get("notes", [])
        except Exception as e:  # noqa: BLE001
            import traceback
            machinery_errors.append("special step crashed: %s %s" % (e, traceback.format_exc()[-400:]))

    # 8. evidence
    n_thm = len(thm_names)
    discharged = sum(1 for (m, t) in thm_names if t in axioms) if proof_ok else 0
    distinct = len({l for l in lines if nontrivial(l)})
    axset = sorted({a for v in axioms.values() for a in v})
    cov = {
        "obligations": max(n_thm, 1) if not args.no_proofs else 1,
        "discharged": discharged,
        "checker_cmd": "cd /verif/lean && lake build %s && lake env lean ../build/audit/Audit_%s.lean   # #print axioms of every theorem"
                       % (" ".join(modules), pid),
        "trusted_base": ["Lean 4.33 kernel", "axioms used by this property's theorems: %s" % (axset or "none")] + cfg.get("trusted", []) + [
            "tools/extract.py (translator) and the mini x86 semantics of NB.Model.Asm where used",
            "correspondence check: harness/ (Rust), lean/Driver.lean, tools/gens (generators), tools/check.py"],
        "theorems": [t for (_, t) in thm_names],
        "proof_build_ok": proof_ok,
        "proof_failures": proof_fails[:5],
        "evaluations": len(lines) * max(1, len(bins)),
        "distinct_nontrivial": distinct,
        "rule": "requests = committed corpus + structured generators of tools/gens seeded by VERIF_SEED; each request is run on "
                "the real crate (every profile listed), on the Lean model and on the Nat/Int oracle; distinct_nontrivial counts "
                "distinct request lines having an operand of at least two 64-bit digits (or a long byte/word/text argument)",
        "samples": samples[:8] if samples else [{"note": "no request stream for this run"}],
        "streams": streams,
        "disagreements": counters,
        "extraction": {"values": info["values"], "stale": info["stale"]},
        "profiles": sorted(bins.keys()),
        "internal_hooks": hooks_on,
        "notes": notes,
        "lean_build_s": round(lean_s, 1),
    }
    cov.update(stats)
    cov.update(extra_cov)
    ev = {
        "property_id": pid, "tier": tier, "seed": seed, "level": cfg.get("level", "proof"),
        "coverage": cov,
        "assumptions": cfg.get("assumptions", []),
        "wall_s": round(time.time() - t0, 2),
        "violations": len(violations),
    }
    if machinery_errors:
        ev["coverage"]["machinery_errors"] = machinery_errors
    if not args.no_proofs:   # development runs do not overwrite the evidence
        os.makedirs(os.path.join(VERIF, "evidence"), exist_ok=True)
        with open(os.path.join(VERIF, "evidence", pid + ".json"), "w") as f:
            json.dump(ev, f, indent=1)

    for k in known_hits:
        print("KNOWN-FINDING: property=%s %s" % (pid, k))
    if machinery_errors and not violations:
        for e in machinery_errors:
            log("MACHINERY-ERROR:", e)
        print("check %s: machinery error (no verdict)" % pid)
        return 2
    if violations:
        for (p, suffix) in violations:
            print("VIOLATION property=%s replay=%s%s" % (pid, p, suffix))
        return 1
    print("check %s: OK  theorems=%d requests=%d profiles=%s wall=%.1fs" % (pid, n_thm, len(lines), ",".join(sorted(bins)), time.time() - t0))
    return 0

if __name__ == "__main__":
    sys.exit(main())
