#!/usr/bin/env python3
"""Run checks against a seeded breaking change: apply seeded/<id>/patch.diff to /repo, run the
named checks (default: the property the change targets), undo the change, restore generated files
and the committed evidence.  Usage: tools/seedtest.py seeded/<dir> [Cxx ...] [--tier quick]"""
import json, os, subprocess, sys, time
VERIF = os.path.dirname(os.path.dirname(os.path.abspath(__file__)))
REPO = os.environ.get("NB_REPO", "/repo")   # the repository the checks are tied to (an isolated copy for background regression runs)

def main():
    args = [a for a in sys.argv[1:] if not a.startswith("--")]
    tier = "quick"
    if "--tier" in sys.argv:
        tier = sys.argv[sys.argv.index("--tier") + 1]
        args = [a for a in args if a != tier]
    d = os.path.abspath(args[0])
    meta = json.load(open(os.path.join(d, "meta.json")))
    pids = args[1:] or [meta["property"]]
    st = subprocess.run(["git", "-C", REPO, "status", "--porcelain"], capture_output=True, text=True).stdout.strip()
    if st:
        print("refusing: /repo has uncommitted changes:\n" + st); return 2
    r = subprocess.run(["git", "-C", REPO, "apply", os.path.join(d, "patch.diff")], capture_output=True, text=True)
    if r.returncode != 0:
        print("patch does not apply:", r.stderr); return 2
    results = {}
    try:
        for pid in pids:
            t0 = time.time()
            p = subprocess.run([sys.executable, os.path.join(VERIF, "tools", "check.py"), pid, "--tier", tier],
                               cwd=VERIF, capture_output=True, text=True)
            viol = [l for l in p.stdout.split("\n") if l.startswith("VIOLATION")]
            replay = None
            if viol:
                path = viol[0].split("replay=")[1].split()[0]
                try:
                    replay = json.load(open(path))
                except Exception:  # noqa: BLE001
                    replay = None
            results[pid] = {"rc": p.returncode, "violations": viol[:4], "wall_s": round(time.time() - t0, 1),
                            "first_replay": {k: (str(v)[:200]) for k, v in (replay or {}).items() if k in ("kind", "request", "impl", "oracle", "model", "failures", "command", "features")},
                            "stderr_tail": p.stderr[-300:] if p.returncode not in (0, 1) else ""}
            print(pid, "rc=%d" % p.returncode, "violations=%d" % len(viol), "%.0fs" % (time.time() - t0), flush=True)
            for v in viol[:2]:
                print("   ", v)
    finally:
        subprocess.run(["git", "-C", REPO, "checkout", "--", "."])
        subprocess.run(["git", "-C", REPO, "clean", "-fdq", "src", "tests", "examples"])
        subprocess.run([sys.executable, os.path.join(VERIF, "tools", "extract.py")], capture_output=True)
        subprocess.run(["git", "-C", VERIF, "checkout", "--", "evidence"], capture_output=True)
        subprocess.run(["rm", "-rf", os.path.join(VERIF, "evidence", "replays")])
    out = os.path.join(d, "detection.json")
    prev = {}
    if os.path.exists(out):
        prev = json.load(open(out))
    prev.update(results)
    json.dump(prev, open(out, "w"), indent=1)
    return 0

if __name__ == "__main__":
    sys.exit(main())
