"""C05 — modpow / modinv / Montgomery request generator.

Structure: modulus shape (length, parity, top digit, B^k±1, ±1) × base regime (0, shorter, equal
length below/above m, exact multiples of m, longer) × exponent shape (0, 1, 2^k, zero 4-bit
windows, zero low digits, all-ones) × sign pattern; then the internal hooks (montgomery on raw
digit vectors with the right and with arbitrary k, inv_mod_alt) and modinv families (gcd ≠ 1,
a = 0, a multiple of m, Fibonacci neighbours for long Euclid runs).
"""
from math import gcd
from genlib import *


def moduli(rng, n, parity):
    """moduli of exactly n digits with the requested parity (1 = odd)"""
    out = []

    def fix(l):
        l = list(l)
        l[0] = (l[0] & ~1) | parity
        if l[-1] == 0:
            l[-1] = 1
        return val(l)

    for top in (1, 1 << 63, MAX, rng.randrange(1, B), (1 << 63) - 1, MAX - 1, 2):
        lo = [rng.randrange(B) for _ in range(n - 1)]
        out.append(fix(lo + [top]))
    out.append(fix([MAX] * n))                      # B^n - 1 (odd) / B^n - 2 (even)
    out.append(fix([0] * (n - 1) + [1]) if n > 1 else (3 if parity else 2))   # B^(n-1) (+1)
    out.append(fix([1] + [0] * (n - 2) + [1]) if n > 1 else 1 + (1 - parity))
    out.append(fix([MAX] * (n - 1) + [1]))
    out.append(fix([0] * (n - 1) + [MAX]))
    out.append(fix(digits(rng, n)))
    if n > 1:
        out.append(fix([MAX] * (n - 1) + [rng.choice([1, MAX])]))
    return [m for m in out if m > 0 and (m & 1) == parity]


def bases(rng, m):
    n = len(limbs_of(m))
    out = [0, 1, 2, m - 1, m, m + 1, rng.randrange(m) if m > 1 else 0]
    # equal length, at or above m (the padded operand is then not reduced)
    hi = B ** n
    out += [hi - 1, hi - 2, rng.randrange(m, hi) if m < hi else m]
    for k in (2, 3, 5):
        if k * m < hi:
            out.append(k * m)
    if n > 1:
        out.append(big(rng, rng.randrange(1, n)))        # shorter
        out.append(B ** (n - 1))
    out.append(big(rng, n + 1)); out.append(big(rng, n + rng.randrange(1, 4)))   # longer
    out.append(m * rng.randrange(B, B * B))              # longer multiple of m
    out.append(hi)
    return out


def exponents(rng, tier):
    out = [0, 1, 2, 3, 4, 15, 16, 17, 1 << 4, 1 << 8, 1 << 60, 1 << 63, MAX, MAX - 1, 1 << 64, (1 << 64) + 1,
           1 << 65, 1 << 127, 1 << 128, 3 << 128, (1 << 64) * rng.randrange(1, B), (B * B) * rng.randrange(1, B)]
    # digits with zero 4-bit windows
    for _ in range(4):
        d = 0
        for w in range(16):
            d |= (rng.choice([0, 0, 0, 1, 8, 15, rng.randrange(16)])) << (4 * w)
        out.append(d)
        out.append(d | (rng.randrange(1, 16) << 60))
        out.append((d << 64) | rng.choice([0, 1, 1 << 63, d]))
    out.append(0xF000000000000000); out.append(0x0000000000000001 | (1 << 64)); out.append(0x1000000000000000)
    out.append(val([0, 0, 1])); out.append(val([0, 1 << 63, 0, 6]))
    out.append(val([1 << 63, 0, 1])); out.append(val([rng.randrange(B) & ~0xFFFF, rng.randrange(B)]))
    out.append(rng.randrange(B)); out.append(rng.randrange(B * B)); out.append(rng.randrange(B ** 3))
    out.append(1 << rng.randrange(1, 200))
    if tier == "thorough":
        out.append(rng.randrange(B ** 5))
        out.append(val([0] * 4 + [rng.randrange(1, B)]))
    return out


def inv_k(m0):
    return (-pow(m0, -1, B)) % B


def montgomery_reqs(rng, n, count):
    reqs = []
    for _ in range(count):
        shape = rng.randrange(8)
        if shape == 0:
            m = [MAX] * n
        elif shape == 1:
            m = [rng.randrange(B) | 1] + [rng.randrange(B) for _ in range(n - 2)] + ([MAX] if n > 1 else [])
        elif shape == 2:
            m = [1] + [0] * (n - 2) + ([1] if n > 1 else [])
        elif shape == 3:
            m = [MAX] + [0] * (n - 2) + ([1 << 63] if n > 1 else [])
        else:
            m = digits(rng, n)
        m[0] |= 1
        k = inv_k(m[0])
        for pat in range(4):
            if pat == 0:
                x = digits(rng, n); y = digits(rng, n)
            elif pat == 1:
                x = [MAX] * n; y = [MAX] * n
            elif pat == 2:
                x = list(m); y = digits(rng, n, "ones")
            else:
                x = digits(rng, n, rng.choice(["rand", "mixed", "half"])); y = list(x)
            args = "%s %s %s %x %d" % (wl(x), wl(y), wl(m), k, n)
            reqs.append("C05 raw.montgomery " + args)
            reqs.append("C05 raw.montgomery_chk " + args)
        # faithfulness of the digit loop outside its contract: arbitrary k, even modulus
        x = digits(rng, n); y = digits(rng, n)
        reqs.append("C05 raw.montgomery %s %s %s %x %d" % (wl(x), wl(y), wl(m), rng.randrange(B), n))
        me = list(m); me[0] &= ~1
        reqs.append("C05 raw.montgomery %s %s %s %x %d" % (wl(x), wl(y), wl(me), digit(rng), n))
    return reqs


def modinv_reqs(rng, tier):
    reqs = []
    pairs = []
    fib = [1, 2]
    while len(fib) < (400 if tier == "thorough" else 200):
        fib.append(fib[-1] + fib[-2])
    for i in (5, 20, 90, 91, 92, 93, 150, len(fib) - 2):
        pairs.append((fib[i], fib[i + 1])); pairs.append((fib[i + 1] + fib[i], fib[i + 1])); pairs.append((fib[i - 1], fib[i + 1]))
    mx = 12 if tier == "thorough" else 6
    for n in list(range(1, mx + 1)) * (4 if tier == "thorough" else 2):
        m = big(rng, n)
        for a in (0, 1, 2, m - 1, m, m + 1, 2 * m, m * rng.randrange(1, B), rng.randrange(m), rng.randrange(m),
                  big(rng, n + 2), big(rng, max(1, n - 1)), m // 2, m // 2 + 1):
            pairs.append((a, m))
        g = rng.choice([2, 3, 7, 1 << 32, rng.randrange(2, B), big(rng, max(1, n // 2))])
        pairs.append((g * rng.randrange(1, B), g * big(rng, n)))
        pairs.append((g, g * g)); pairs.append((g * g, g)); pairs.append((g, g))
        # m divisible by a % m after the lifted first step (r2 == 0)
        a = rng.randrange(2, B)
        pairs.append((a, a * rng.randrange(2, B))); pairs.append((a + a * big(rng, n), a * rng.randrange(2, B)))
        # large primes / powers of two
        pairs.append((rng.randrange(1, 1 << 61), (1 << 61) - 1)); pairs.append((big(rng, n), (1 << 127) - 1))
        pairs.append((big(rng, n) | 1, 1 << (64 * n))); pairs.append((big(rng, n) & ~1, 1 << (64 * n)))
        pairs.append((big(rng, n), B ** n - 1)); pairs.append((big(rng, n), B ** n + 1))
    for m in (1, 2, 3, 4, MAX, B, B + 1):
        for a in (0, 1, 2, 3, 5, m, m + 1, MAX, B):
            pairs.append((a, m))
    for (a, m) in pairs:
        reqs.append("C05 u.modinv %s %s" % (wu(a), wu(m)))
        for sa in (1, -1):
            for sm in (1, -1):
                if rng.randrange(3) or m in (1, 2):
                    reqs.append("C05 i.modinv %s %s" % (wi(sa * a), wi(sm * m)))
    for a in (0, 1, 5, B, big(rng, 3)):
        reqs.append("C05 u.modinv %s ." % wu(a))
        reqs.append("C05 i.modinv %s 0." % wi(-a))
        reqs.append("C05 i.modinv %s 0." % wi(a))
    return reqs


def layer_reqs(rng, tier):
    """Layer link (digit-level operators inside modpow/modinv): operands chosen by the regime of the
    OPERATOR the routine calls — `*` beyond schoolbook (Karatsuba above 32 digits, Toom-3 above 256), `%` on the
    `to_u32` fast path (modulus < 2^32), on a one-digit divisor, on the multi-digit Knuth path with and without
    normalisation shift, `&m - x` with a shorter / equally long x, `t0 + (m - qt1)` with a carry into a new
    digit, the final `zz -= m` of monty_modpow."""
    reqs = []
    thorough = tier == "thorough"
    for n in [33, 40] + ([70, 130, 260] if thorough else []):
        for parity in (0, 1):
            m = rng.choice(moduli(rng, n, parity))
            bs = (big(rng, n), big(rng, n + 3), big(rng, max(1, n // 2)), m - 1)
            for b in (bs if n <= 100 else (bs[rng.randrange(3)], m - 1)):
                e = rng.choice([3, 5, 0x1f, 0x101, rng.randrange(2, 1 << 10), 1 << 7, (1 << 64) | 5])
                if n > 100:
                    e = rng.choice([3, 6, 0x15])
                reqs.append("C05 u.modpow %s %s %s" % (wu(b), wu(e), wu(m)))
            b = big(rng, n); e = rng.choice([3, 7, 0x21])
            for (sb, sm) in (((1, 1), (1, -1), (-1, 1), (-1, -1)) if n <= 100 else ((1, -1), (-1, 1))):
                reqs.append("C05 i.modpow %s %s %s" % (wi(sb * b), wi(e), wi(sm * m)))
            reqs.append("C05 u.plain_modpow %s %s %s" % (wu(big(rng, n + 1)), wu(rng.choice([2, 6, 0x30])), wu(m)))
        a, m = big(rng, n), big(rng, n)
        for (x, y) in ((a, m), (a // 2 + 1, m | 1), (big(rng, n + 2), m), (big(rng, max(1, n // 3)), m)):
            reqs.append("C05 u.modinv %s %s" % (wu(x), wu(y)))
            reqs.append("C05 i.modinv %s %s" % (wi(-x), wi(rng.choice([1, -1]) * y)))
    # small and one-digit moduli: `%` takes the to_u32 / rem_digit / div_rem_digit paths
    for m in (6, 10, 1 << 31, (1 << 32) - 2, (1 << 32) - 1, 1 << 32, (1 << 32) + 1, (1 << 32) + 2, 1 << 63,
              MAX - 1, MAX, rng.randrange(2, 1 << 32), rng.randrange(1 << 32, B)):
        for b in (big(rng, 1), big(rng, 2), big(rng, 5), m - 1, m + 1):
            e = rng.choice([2, 3, 0xff, 1 << 9, rng.randrange(B), (1 << 64) + 3])
            reqs.append("C05 u.modpow %s %s %s" % (wu(b), wu(e), wu(m)))
            reqs.append("C05 i.modpow %s %s %s" % (wi(-b), wi(e | 1), wi(rng.choice([1, -1]) * m)))
            reqs.append("C05 u.modinv %s %s" % (wu(b), wu(m)))
            reqs.append("C05 i.modinv %s %s" % (wi(-b), wi(-m)))
    # divisor shapes for the Knuth path inside `%`: top digit with / without leading zeros, B^k, B^k ± 1
    for n in (2, 3, 4, 7):
        for m in (B ** (n - 1), B ** (n - 1) + 2, B ** n - 2, val([0] * (n - 1) + [1 << 63]), val([MAX] * (n - 1) + [1]),
                  val([rng.randrange(B) & ~1] + [0] * (n - 2) + [rng.randrange(1, 1 << 20)])):
            for b in (B ** n - 1, B ** (n + 1) - 1, big(rng, n), m + 1, 2 * m - 1):
                e = rng.choice([2, 3, 9, 0x41, (1 << 64) | 1])
                reqs.append("C05 u.modpow %s %s %s" % (wu(b), wu(e), wu(m)))
                reqs.append("C05 u.modinv %s %s" % (wu(b | 1), wu(m)))
                reqs.append("C05 i.modinv %s %s" % (wi(-(b | 1)), wi(rng.choice([1, -1]) * m)))
    # results next to the ends of [0, m): `&m - result` borrows through every digit / cancels the top digits
    for n in (1, 2, 3, 5):
        m = B ** n + rng.choice([0, 1, 2, 3])
        for r in (1, 2, m - 1, m - 2, B ** (n - 1) if n > 1 else 3, B ** n - 1):
            # b = r has b^1 mod m = r
            for sm in (1, -1):
                reqs.append("C05 i.modpow %s %s %s" % (wi(-(r % m)), wi(1), wi(sm * m)))
                reqs.append("C05 i.modpow %s %s %s" % (wi(r % m), wi(1), wi(sm * m)))
    return reqs


def nilpotent_reqs(rng, tier):
    """the boundary where b^e becomes 0 mod m: m = p^k·c (p = 2, 3, 10 …; also exactly 2^k, one and several digits),
    b = p^t·odd, e around k/t (floor, ceil, ±1, the exact quotient when t | k).  A shortcut "enough factors of p, so the
    result is 0" is wrong by one step for one residue class of k mod t (C05-t1); the same shape through even and odd
    moduli, all sign combinations of BigInt::modpow, and exponents written with several digits."""
    reqs = []
    ks = [63, 64, 65, 70, 96, 127, 128, 129, 130, 192, 200, 256] + ([320, 511, 512, 640, 1000] if tier == "thorough" else [])
    ts = [1, 2, 3, 5, 7, 9, 21, 31, 63, 64, 65] + ([4, 6, 11, 13, 32, 100] if tier == "thorough" else [])
    for p in (2, 2, 3, 10, 6):
        for k in ks:
            for t in (ts if p == 2 else ts[:6]):
                if t > k:
                    continue
                c = rng.choice([1, 1, 3, 5, rng.randrange(1, B) | 1]) if rng.randrange(3) == 0 else 1
                m = p ** k * c
                odd = rng.choice([1, 1, 3, 5, 7, rng.randrange(1, 1 << 40) | 1])
                while p != 2 and odd % p == 0:
                    odd += 2
                b = p ** t * odd
                q = k // t
                es = {q - 1, q, q + 1, -(-k // t), -(-k // t) + 1, 2 * q, 2 * q + 1, max(1, q // 2)}
                es = sorted(e for e in es if e >= 1)
                if tier != "thorough":
                    es = [e for e in es if e in (q, -(-k // t))] + rng.sample(es, 1)
                for e in es:
                    reqs.append("C05 u.modpow %s %s %s" % (wu(b), wu(e), wu(m)))
                    if rng.randrange(3) == 0:
                        reqs.append("C05 u.modpow %s %s %s" % (wu(b % m if b % m else b), wu(e), wu(m)))
                    if rng.randrange(2) == 0:
                        sb, sm = rng.choice([1, -1]), rng.choice([1, -1])
                        reqs.append("C05 i.modpow %s %s %s" % (wi(sb * b), wi(e), wi(sm * m)))
                    if p in (2, 10, 6) and rng.randrange(2) == 0:
                        reqs.append("C05 u.plain_modpow %s %s %s" % (wu(b), wu(e), wu(m)))
    return reqs

def long_exponent_reqs(rng, tier):
    """exponents at the sizes where implementations switch strategy (window width chosen from the exponent's bit
    length: 64·k bits ± 1 for k = 1…40, in particular 512/1024/2048/4096-bit cryptographic sizes ± 1), against small
    odd and even moduli (cheap), through modpow of both types and the two internal routines (C05-u1: a 5-bit window for
    exponents above 2048 bits whose digit scan assumes the width divides 64)."""
    reqs = []
    bitlens = [63, 64, 65, 127, 128, 129, 255, 256, 257, 511, 512, 513, 1023, 1024, 1025, 2047, 2048, 2049, 2050, 2112, 2560]
    if tier == "thorough":
        bitlens += [3071, 3072, 3073, 4095, 4096, 4097, 8192, 8193]
    mods = [1000003, (1 << 61) - 1, (1 << 64) - 59, (1 << 64) + 13, val([rng.randrange(B) | 1, rng.randrange(1, B)]), 1000000, 1 << 64,
            val([rng.randrange(B) & ~1, rng.randrange(1, B)]), val([rng.randrange(B) | 1 for _ in range(5)])]
    for L in bitlens:
        es = [(1 << (L - 1)) | rng.randrange(1 << (L - 1)), (1 << L) - 1, 1 << (L - 1), (1 << (L - 1)) | 1]
        for e in (es if tier == "thorough" else rng.sample(es, 2)):
            for m in (mods if tier == "thorough" else rng.sample(mods, 3)):
                b = rng.choice([2, 3, rng.randrange(2, m), m - 1, m + 2])
                reqs.append("C05 u.modpow %s %s %s" % (wu(b), wu(e), wu(m)))
                if rng.randrange(3) == 0:
                    reqs.append("C05 i.modpow %s %s %s" % (wi(-b), wi(e), wi(rng.choice([1, -1]) * m)))
                if m % 2 == 1 and m > 1 and rng.randrange(2) == 0:
                    reqs.append("C05 u.monty_modpow %s %s %s" % (wu(b % m), wu(e), wu(m)))
                if m % 2 == 0 and rng.randrange(2) == 0:
                    reqs.append("C05 u.plain_modpow %s %s %s" % (wu(b), wu(e), wu(m)))
    return reqs

def tiny_modulus_reqs(rng, tier):
    """every tiny modulus (1 … 17, 32, 64, 2^16, 2^32, 2^63, 2^64, 2^65) with every residue class of the base that fits
    and exponents LONGER than the modulus (2^64 ± 1, 2^64, 2^128 + 3, B^3 + 1 …): group-order arguments ("reduce the
    exponent modulo the order of the unit group") have exceptions exactly at the smallest moduli (C05-j1: modulus 4),
    and exhaustive small tests never use exponents beyond a machine word"""
    reqs = []
    mods = list(range(1, 18)) + [32, 64, 1 << 16, 1 << 32, 1 << 63, 1 << 64, 1 << 65, 3 << 63, 255, 256, 257]
    exps = [(1 << 64) - 1, 1 << 64, (1 << 64) + 1, (1 << 64) + 2, (1 << 64) + 3, (1 << 128) + 3, B ** 3 + 1, (1 << 65) + 5, rng.randrange(B, B * B) | 1]
    for m in mods:
        bases = list(range(0, min(m, 17) + 2)) + ([m - 1, m, m + 1, m + 3, rng.randrange(m)] if m > 17 else [])
        for b in bases:
            for e in (exps if tier == "thorough" else rng.sample(exps, 3) + [(1 << 64) + 1]):
                reqs.append("C05 u.modpow %s %s %s" % (wu(b), wu(e), wu(m)))
                if (b + e) % 3 == 0:
                    reqs.append("C05 i.modpow %s %s %s" % (wi(-b), wi(e), wi(rng.choice([1, -1]) * m)))
    return reqs

def zero_residue_reqs(rng, tier):
    """b^e ≡ 0 (mod m) with b not a multiple of m: non-square-free moduli of special FORM (2^k − 1 with 6 | k, 2^k + 1
    with k an odd multiple of 3, B^j − 1, q²·c) and b = m / p for a prime p with p² | m — a special-form reduction that
    folds instead of dividing tends to return m itself instead of 0 (C05-z1: Mersenne fast path), and Montgomery's last
    conditional subtraction is exercised with the value exactly m (C05-w1).  Also results 1 and m − 1 at the same moduli."""
    reqs = []
    mods = []
    for k in (6, 12, 60, 126, 192, 252, 384, 1020):
        mods.append(((1 << k) - 1, 3))                 # 9 | 2^6 − 1 | 2^k − 1
    for k in (3, 9, 63, 129, 195, 1029):
        mods.append(((1 << k) + 1, 3))                 # 9 | 2^3 + 1 | 2^k + 1 for odd k/3
    for j in (1, 2, 3, 6):
        mods.append((B ** j - 1, 3)); mods.append((B ** j - 1, 5) if (B ** j - 1) % 25 == 0 else (B ** j - 1, 3))
    for _ in range(6 if tier != "thorough" else 30):
        q = rng.choice([3, 5, 7, (1 << 40) + 15, rng.randrange(3, B) | 1, (rng.randrange(B, B * B) | 1)])
        c = rng.choice([1, 1, 2, 4, rng.randrange(1, B)])
        mods.append((q * q * c, q))
    for m, p in mods:
        if m < 2 or m % (p * p):
            continue
        b = m // p
        for e in (2, 3, 5, 16, (1 << 64) + 1):
            for bb in (b, b * 2 % m or b, (m - b)):
                reqs.append("C05 u.modpow %s %s %s" % (wu(bb), wu(e), wu(m)))
            reqs.append("C05 i.modpow %s %s %s" % (wi(rng.choice([1, -1]) * b), wi(e), wi(rng.choice([1, -1]) * m)))
        reqs.append("C05 u.modpow %s %s %s" % (wu(m - 1), wu(2), wu(m)))      # 1
        reqs.append("C05 u.modpow %s %s %s" % (wu(m - 1), wu(3), wu(m)))      # m − 1
        reqs.append("C05 u.modpow %s %s %s" % (wu(m), wu(5), wu(m)))          # 0 through the reduction of the base
        reqs.append("C05 u.modpow %s %s %s" % (wu(m + 1), wu(7), wu(m)))      # 1
    return reqs

def cf_modinv_reqs(rng, tier):
    """modinv on (value, modulus) pairs constructed from their Euclidean quotient sequence (genlib.cf_pair): long runs of
    tiny quotients with huge quotients in the middle, 2 … 45 digits (a Lehmer-style extended gcd batches single-word
    steps and falls back to a full division at a huge quotient; C05-y1 lost one sign flip exactly there), coprime and
    with a common factor, all sign combinations for BigInt"""
    reqs = []
    shapes = [(20, None), (40, {7}), (80, {30}), (150, {75}), (300, {150}), (300, {3, 150, 290}), (420, {200, 201}), (600, None),
              (700, {350}), (900, {100, 450, 800}), (1100, {20, 550}), (1100, {1080})]      # 2000 … 5000-bit moduli
    if tier == "thorough":
        shapes += [(200, {k}) for k in (1, 50, 100, 199)] + [(800, {400}), (1000, {10, 500, 990})]
    for nq, huge in shapes:
        for _ in range(2 if tier != "thorough" else 4):
            m, a = cf_pair(rng, nq, huge)
            for (x, y) in ((a, m), (m - a if m > a else a, m), (a + m, m)):
                reqs.append("C05 u.modinv %s %s" % (wu(x), wu(y)))
            reqs.append("C05 i.modinv %s %s" % (wi(rng.choice([1, -1]) * a), wi(rng.choice([1, -1]) * m)))
    return reqs

def gen(rng, tier):
    reqs = []
    thorough = tier == "thorough"
    sizes = [1, 2, 3, 4, 5, 6] + ([7, 8, 12, 17, 24, 33, 40] if thorough else [])
    rounds = 2 if thorough else 1
    for _ in range(rounds):
        for n in sizes:
            exps = exponents(rng, tier)
            for parity in (1, 0):
                ms = moduli(rng, n, parity)
                if n > 8:
                    ms = rng.sample(ms, 4)
                for m in ms:
                    bs = bases(rng, m)
                    if n > 8:
                        bs = rng.sample(bs, 6)
                    for b in bs:
                        cnt = (2 if n <= 3 else 1) if not thorough else (3 if n <= 8 else 1)
                        for e in rng.sample(exps, cnt):
                            if n > 8:
                                e %= B * B
                            reqs.append("C05 u.modpow %s %s %s" % (wu(b), wu(e), wu(m)))
                    # BigInt: every sign combination on a few (b, e)
                    for _ in range(2 if n <= 6 else 1):
                        b = rng.choice(bs); e = rng.choice(exps)
                        if n > 8:
                            e %= B * B
                        for sb in (1, -1):
                            for sm in (1, -1):
                                reqs.append("C05 i.modpow %s %s %s" % (wi(sb * b), wi(e), wi(sm * m)))
                                if rng.randrange(2):
                                    reqs.append("C05 i.modpow %s %s %s" % (wi(sb * b), wi(e | 1), wi(sm * m)))
                    # the two routines behind the dispatch
                    b = rng.choice(bs); e = rng.choice(exps) % (B * B)
                    if parity:
                        reqs.append("C05 u.monty_modpow %s %s %s" % (wu(b), wu(e), wu(m)))
                    reqs.append("C05 u.plain_modpow %s %s %s" % (wu(b), wu(e), wu(m)))
            reqs += montgomery_reqs(rng, n, 6 if n <= 8 else 2)
    # tiny moduli and the panics
    for m in (1, 2, 3, 4, 5, 16, MAX, B, B + 1, B - 1):
        for b in (0, 1, 2, 3, m, m + 1, MAX, B):
            for e in (0, 1, 2, 5, 16, 1 << 64):
                reqs.append("C05 u.modpow %s %s %s" % (wu(b), wu(e), wu(m)))
                sb, sm = rng.choice([1, -1]), rng.choice([1, -1])
                reqs.append("C05 i.modpow %s %s %s" % (wi(sb * b), wi(e), wi(sm * m)))
    for b in (0, 1, -1, 7, -7, B, -B):
        for e in (0, 1, -1, 5, -5, -B):
            for m in (0, 1, -1, 10, -10, 7, -7):
                if e < 0 or m == 0:
                    reqs.append("C05 i.modpow %s %s %s" % (wi(b), wi(e), wi(m)))
    for b in (0, 1, 7, B):
        for e in (0, 1, 5, B):
            reqs.append("C05 u.modpow %s %s ." % (wu(b), wu(e)))
            reqs.append("C05 u.plain_modpow %s %s ." % (wu(b), wu(e)))
    reqs += modinv_reqs(rng, tier)
    reqs += layer_reqs(rng, tier)
    reqs += nilpotent_reqs(rng, tier)
    reqs += long_exponent_reqs(rng, tier)
    reqs += cf_modinv_reqs(rng, tier)
    reqs += zero_residue_reqs(rng, tier)
    reqs += tiny_modulus_reqs(rng, tier)
    # inv_mod_alt
    for b in [1, 3, 5, 7, MAX, MAX - 2, (1 << 63) + 1, (1 << 32) + 1, (1 << 32) - 1, (1 << 63) - 1, 0x5555555555555555]:
        reqs.append("C05 raw.inv_mod_alt %x" % b)
    if thorough:
        for lo in range(1, 1 << 16, 2):
            reqs.append("C05 raw.inv_mod_alt %x" % ((rng.randrange(1 << 48) << 16) | lo))
    else:
        for _ in range(300):
            reqs.append("C05 raw.inv_mod_alt %x" % (rng.randrange(B) | 1))
        for s in range(1, 64):
            reqs.append("C05 raw.inv_mod_alt %x" % ((1 << s) | 1))
            reqs.append("C05 raw.inv_mod_alt %x" % ((MAX << s) & MAX | 1))
    return reqs
