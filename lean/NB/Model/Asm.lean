/-
  NB.Model.Asm — mini x86-64 interpreter for the instruction subset of the two inline-asm
  loops (import-free, executable).  This is *my* formalisation of that ISA subset and is in the
  trusted base: adc/sbb add/subtract with CF and set CF/ZF; inc/dec leave CF unchanged and set
  ZF; jnz jumps when ZF = 0; setc writes CF; clc clears CF.

  Two memories: the buffer behind pointer register `aReg` (read/write, `la` digits) and the
  buffer behind `bReg` (read-only, `lb` digits).  Any access at an index ≥ the buffer length,
  any store through `bReg`, any access through another base register, and any write to a
  pointer register is a fault (`none`).
-/
import NB.Base
import NB.Model.AsmDefs
namespace NB.Asm

def upd (f : Nat → Nat) (i v : Nat) : Nat → Nat := fun j => if j = i then v else f j

structure St where
  regs : Nat → Nat
  cf : Bool
  zf : Bool
  a : Nat → Nat
  b : Nat → Nat

/-- static description of a run: which registers hold the two pointers, buffer lengths -/
structure Cfg where
  aReg : Nat
  bReg : Nat
  la : Nat
  lb : Nat

def b2n (c : Bool) : Nat := if c then 1 else 0

/-- one non-control instruction; `none` = fault -/
def step (k : Cfg) (i : Instr) (s : St) : Option St :=
  match i with
  | .clc => some { s with cf := false }
  | .load dst base idx off =>
    if dst = k.aReg ∨ dst = k.bReg then none
    else if base = k.aReg then
      if s.regs idx + off < k.la then some { s with regs := upd s.regs dst (s.a (s.regs idx + off)) } else none
    else if base = k.bReg then
      if s.regs idx + off < k.lb then some { s with regs := upd s.regs dst (s.b (s.regs idx + off)) } else none
    else none
  | .store base idx off src =>
    if base = k.aReg then
      if s.regs idx + off < k.la then some { s with a := upd s.a (s.regs idx + off) (s.regs src) } else none
    else none
  | .adc dst src =>
    if dst = k.aReg ∨ dst = k.bReg then none else
    let t := s.regs dst + s.regs src + b2n s.cf
    some { s with regs := upd s.regs dst (t % B), cf := decide (B ≤ t), zf := decide (t % B = 0) }
  | .sbb dst src =>
    if dst = k.aReg ∨ dst = k.bReg then none else
    let sub := s.regs src + b2n s.cf
    let r := if sub ≤ s.regs dst then s.regs dst - sub else s.regs dst + B - sub
    some { s with regs := upd s.regs dst r, cf := decide (s.regs dst < sub), zf := decide (r = 0) }
  | .inc r =>
    if r = k.aReg ∨ r = k.bReg then none else
    let v := (s.regs r + 1) % B
    some { s with regs := upd s.regs r v, zf := decide (v = 0) }
  | .dec r =>
    if r = k.aReg ∨ r = k.bReg then none else
    let v := (s.regs r + B - 1) % B
    some { s with regs := upd s.regs r v, zf := decide (v = 0) }
  | .setc r =>
    if r = k.aReg ∨ r = k.bReg then none else
    some { s with regs := upd s.regs r (b2n s.cf) }
  | .label _ => none
  | .jnz _ => none

/-- straight-line execution -/
def exec (k : Cfg) : List Instr → St → Option St
  | [], s => some s
  | i :: is, s => match step k i s with
    | none => none
    | some s' => exec k is s'

/-- program shape `pre ++ [label L] ++ body ++ [jnz L] ++ post` with no other control flow -/
structure Loop where
  pre : List Instr
  body : List Instr
  post : List Instr
  deriving DecidableEq, Repr

def isCtl : Instr → Bool
  | .label _ => true | .jnz _ => true | _ => false

def splitLoop (prog : List Instr) : Option Loop :=
  let pre := prog.takeWhile (fun i => !isCtl i)
  match prog.drop pre.length with
  | .label l :: rest =>
    let body := rest.takeWhile (fun i => !isCtl i)
    match rest.drop body.length with
    | .jnz l' :: post => if l = l' ∧ post.all (fun i => !isCtl i) then some ⟨pre, body, post⟩ else none
    | _ => none
  | _ => none

/-- do-while: run the body, jump back while ZF = 0 -/
def loop (k : Cfg) (body : List Instr) : Nat → St → Option St
  | 0, _ => none
  | fuel + 1, s => match exec k body s with
    | none => none
    | some s' => if s'.zf then some s' else loop k body fuel s'

def run (k : Cfg) (prog : List Instr) (fuel : Nat) (s : St) : Option St :=
  match splitLoop prog with
  | none => none
  | some l => match exec k l.pre s with
    | none => none
    | some s1 => match loop k l.body fuel s1 with
      | none => none
      | some s2 => exec k l.post s2

/-- registers description needed to call an asm routine -/
structure Regs where
  size : Nat
  a : Nat
  b : Nat
  c : Nat
  idx : Nat

def memOf (l : List Nat) : Nat → Nat := fun i => l.getD i 0

/-- initial state of the Rust wrapper: `size /= d` iterations (must be ≥ 1: the wrapper returns
    early when it is 0), `idx = 0`, all other registers arbitrary (0 here) -/
def initSt (r : Regs) (n : Nat) (a b : List Nat) : St :=
  { regs := upd (upd (fun _ => 0) r.size n) r.idx 0, cf := false, zf := false, a := memOf a, b := memOf b }

/-- run an asm routine on two slices the way the Rust wrapper does; result (carry, idx, new a) -/
def call (prog : List Instr) (r : Regs) (d : Nat) (a b : List Nat) (size : Nat) : Option (Bool × Nat × List Nat) :=
  let n := size / d
  if n = 0 then some (false, 0, a) else
  let k : Cfg := ⟨r.a, r.b, a.length, b.length⟩
  match run k prog (n + 1) (initSt r n a b) with
  | none => none
  | some s => some (s.regs r.c > 0, s.regs r.idx, (List.range a.length).map s.a)

end NB.Asm
