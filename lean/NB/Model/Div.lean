/-
  NB.Model.Div — model of src/biguint/division.rs, src/bigint/division.rs and the division
  methods of `impl Integer for BigUint/BigInt` (src/biguint.rs, src/bigint.rs), 64-bit digits,
  x86_64 (`FAST_DIV_WIDE = true`, so `div_half` is never selected and is not modelled).

  Every `panic!`, `debug_assert!`, `unwrap`, slice index, `u64`/`u128` overflow or underflow and
  the `#DE` fault of the `div` instruction is an explicit `.error` outcome:
  `.divzero` is the documented panic, everything else is `.internal tag` and is proved
  unreachable in NB.Props.C03.

  `u128` temporaries are `Nat`s with the wrap conditions spelled out; `(hi, lo)` of a `u128` is
  `(s / B, s % B)`.
-/
import NB.Base
import NB.Model.AddSub
namespace NB

/-- `big_digit::DIVBITS` -/
def DIVBITS : Nat := 64
/-- `big_digit::MAX` -/
def MAXD : Nat := B - 1
/-- exclusive bound of `u128` (`DoubleBigDigit`) -/
def U128 : Nat := B * B
/-- exclusive bound of `u32` (the `to_u32` fast path of `Rem`) -/
def U32 : Nat := 4294967296
/-- `-(i32::MIN)`: largest magnitude of a negative `i32` (the `to_i32` fast path of `Rem for BigInt`) -/
def I32MINABS : Nat := 2147483648

def ierr {α} (tag : String) : Except Panic α := .error (.internal tag)

/-! ### digit primitives -/

/-- `div_wide(hi, lo, divisor)`: the x86 `div` instruction.  `hi ≥ divisor` (which includes
    `divisor = 0`) is the `#DE` fault / the `debug_assert!(hi < divisor)`. -/
def divWide (hi lo d : Nat) : Except Panic (Nat × Nat) :=
  if hi < d then .ok ((hi * B + lo) / d, (hi * B + lo) % d)
  else ierr "div_wide: hi >= divisor (#DE)"

/-- the loop of `div_rem_digit`: `for d in a.data.iter_mut().rev()` with `rem` carried from
    the top digit down; returns the quotient digits (same length, un-normalised) and `rem` -/
def divRemDigitLoop (b : Nat) : List Nat → Except Panic (List Nat × Nat)
  | [] => .ok ([], 0)
  | d :: ds =>
    match divRemDigitLoop b ds with
    | .error e => .error e
    | .ok (qs, rem) =>
      match divWide rem d b with
      | .error e => .error e
      | .ok (q, r) => .ok (q :: qs, r)

/-- `div_rem_digit(a, b)` -/
def divRemDigit (a : List Nat) (b : Nat) : Except Panic (List Nat × Nat) :=
  if b = 0 then .error .divzero
  else match divRemDigitLoop b a with
    | .error e => .error e
    | .ok (qs, rem) => .ok (normalize qs, rem)

/-- the loop of `rem_digit` (quotient digits discarded) -/
def remDigitLoop (b : Nat) : List Nat → Except Panic Nat
  | [] => .ok 0
  | d :: ds =>
    match remDigitLoop b ds with
    | .error e => .error e
    | .ok rem =>
      match divWide rem d b with
      | .error e => .error e
      | .ok (_, r) => .ok r

/-- `rem_digit(a, b)` -/
def remDigit (a : List Nat) (b : Nat) : Except Panic Nat :=
  if b = 0 then .error .divzero else remDigitLoop b a

/-- one iteration of `sub_mul_digit_same_len`:
    `offset_sum = to_doublebigdigit(MAX, x) - MAX + offset_carry - y * c` in `u128`, every
    intermediate checked; returns `(new_offset_carry, new_x) = from_doublebigdigit(offset_sum)` -/
def subMulStep (x y c oc : Nat) : Except Panic (Nat × Nat) :=
  let t0 := MAXD * B + x                       -- to_doublebigdigit(MAX, x)
  if t0 < MAXD then ierr "sub_mul_digit: u128 underflow (- MAX)" else
  let t1 := t0 - MAXD
  let t2 := t1 + oc
  if U128 ≤ t2 then ierr "sub_mul_digit: u128 overflow (+ offset_carry)" else
  let p := y * c
  if U128 ≤ p then ierr "sub_mul_digit: u128 overflow (y * c)" else
  if t2 < p then ierr "sub_mul_digit: u128 underflow (- y * c)" else
  let s := t2 - p
  .ok (s / B, s % B)

/-- `for (x, y) in a.iter_mut().zip(b)`: returns the new digits and the final offset carry -/
def subMulLoop (c : Nat) : Nat → List Nat → List Nat → Except Panic (List Nat × Nat)
  | oc, x :: xs, y :: ys =>
    match subMulStep x y c oc with
    | .error e => .error e
    | .ok (oc', x') =>
      match subMulLoop c oc' xs ys with
      | .error e => .error e
      | .ok (r, ocf) => .ok (x' :: r, ocf)
  | oc, _, _ => .ok ([], oc)

/-- `sub_mul_digit_same_len(a, b, c)`: `a -= b * c`, returns (new a, borrow).
    `offset_carry` starts at `MAX`; the borrow is `MAX - offset_carry`. -/
def subMulDigitSameLen (a b : List Nat) (c : Nat) : Except Panic (List Nat × Nat) :=
  if a.length ≠ b.length then ierr "sub_mul_digit: debug_assert a.len() == b.len()" else
  match subMulLoop c MAXD a b with
  | .error e => .error e
  | .ok (r, oc) =>
    if MAXD < oc then ierr "sub_mul_digit: u64 underflow (MAX - offset_carry)" else .ok (r, MAXD - oc)

/-! ### the shifts used for normalisation (`u << shift`, `r >> shift`; src/biguint/shift.rs) -/

/-- `u64::leading_zeros` -/
def leadingZeros (d : Nat) : Nat := DIVBITS - (if d = 0 then 0 else Nat.log2 d + 1)

/-- the carry loop of `biguint_shl2` (`0 < s < DIVBITS`) -/
def shlLoop (s : Nat) : Nat → List Nat → List Nat
  | carry, [] => if carry ≠ 0 then [carry] else []
  | carry, e :: es => (((e <<< s) % B) ||| carry) :: shlLoop s (e >>> (DIVBITS - s)) es

/-- `biguint_shl(n, shift)` for an unsigned shift amount -/
def shlBig (n : List Nat) (shift : Nat) : List Nat :=
  if n = [] then n else
  let digits := shift / DIVBITS
  let s := shift % DIVBITS
  let body := if s > 0 then shlLoop s 0 n else n
  normalize (List.replicate digits 0 ++ body)

/-- the borrow loop of `biguint_shr2` (`0 < s < DIVBITS`), from the top digit down; returns the
    new digits and the borrow leaving the lowest digit (dropped by the caller) -/
def shrLoop (s : Nat) : List Nat → List Nat × Nat
  | [] => ([], 0)
  | e :: es =>
    let r := shrLoop s es
    (((e >>> s) ||| r.2) :: r.1, (e <<< (DIVBITS - s)) % B)

/-- `biguint_shr(n, shift)` for an unsigned shift amount -/
def shrBig (n : List Nat) (shift : Nat) : List Nat :=
  if n = [] then n else
  let digits := shift / DIVBITS
  let s := shift % DIVBITS
  if digits ≥ n.length then [] else
  let data := n.drop digits
  normalize (if s > 0 then (shrLoop s data).1 else data)

/-! ### Knuth algorithm D (`div_rem_core`) -/

/-- the 3-by-2 refinement loop
    `while r <= MAX && to_doublebigdigit(r, a2) < q0 * b1 { q0 -= 1; r += b0 }`.
    For `q0 = 0` the condition `… < 0` is false, so recursion on `q0` is exactly the loop. -/
def corrLoop (b0 b1 a2 : Nat) : Nat → Nat → Nat × Nat
  | 0, r => (0, r)
  | q + 1, r =>
    if r ≤ MAXD ∧ r * B + a2 < (q + 1) * b1 then corrLoop b0 b1 a2 q (r + b0) else (q + 1, r)

/-- first estimate `[a0,a1] / b0` (2-by-1), or `MAX` when `a0 = b0` -/
def estimate (a0 a1 b0 : Nat) : Except Panic (Nat × Nat) :=
  if a0 < b0 then divWide a0 a1 b0
  else if a0 ≠ b0 then ierr "div_rem_core: debug_assert a0 == b0"
  else .ok (MAXD, a0 + a1)

/-- multiply-subtract of the window, conditional add-back, `debug_assert!(borrow == a0)`;
    returns the final quotient digit and the new window -/
def mulSubAddBack (P : Params) (w b : List Nat) (q0 a0 : Nat) : Except Panic (Nat × List Nat) :=
  match subMulDigitSameLen w b q0 with
  | .error e => .error e
  | .ok (w1, borrow) =>
    if borrow > a0 then
      if q0 = 0 then ierr "div_rem_core: u64 underflow (q0 -= 1)" else
      let r := add2c P w1 b
      if borrow < r.2 then ierr "div_rem_core: u64 underflow (borrow -= carry)" else
      if borrow - r.2 ≠ a0 then ierr "div_rem_core: debug_assert borrow == a0" else
      .ok (q0 - 1, r.1)
    else
      if borrow ≠ a0 then ierr "div_rem_core: debug_assert borrow == a0" else
      .ok (q0, w1)

/-- the body of `for j in (0..q_len).rev()`: returns `(q.data[j], new a.data, new a0)` -/
def coreStep (P : Params) (b : List Nat) (b0 b1 j : Nat) (a : List Nat) (a0 : Nat) :
    Except Panic (Nat × List Nat × Nat) :=
  if a.length ≠ b.length + j then ierr "div_rem_core: debug_assert a.len() == b.len() + j" else
  if a.length < 2 then ierr "div_rem_core: index a.len() - 2" else
  let a1 := a.getLast?.getD 0
  let a2 := a.getD (a.length - 2) 0
  match estimate a0 a1 b0 with
  | .error e => .error e
  | .ok (q0, r) =>
    let q0 := (corrLoop b0 b1 a2 q0 r).1
    match mulSubAddBack P (a.drop j) b q0 a0 with
    | .error e => .error e
    | .ok (q0, w) =>
      -- a.data[j..] = w; a0 = a.data.pop().unwrap()
      .ok (q0, a.take j ++ w.dropLast, w.getLast?.getD 0)

/-- `for j in (0..q_len).rev()`; the argument counts the remaining iterations, index `j` is
    processed first; returns the quotient digits `q.data[0..j+1]`, the final `a.data` and `a0` -/
def coreLoop (P : Params) (b : List Nat) (b0 b1 : Nat) : Nat → List Nat → Nat →
    Except Panic (List Nat × List Nat × Nat)
  | 0, a, a0 => .ok ([], a, a0)
  | j + 1, a, a0 =>
    match coreStep P b b0 b1 j a a0 with
    | .error e => .error e
    | .ok (q0, a', a0') =>
      match coreLoop P b b0 b1 j a' a0' with
      | .error e => .error e
      | .ok (qs, af, a0f) => .ok (qs ++ [q0], af, a0f)

/-- `div_rem_core(a, b)` -/
def divRemCore (P : Params) (a b : List Nat) : Except Panic (List Nat × List Nat) :=
  if ¬ (a.length ≥ b.length ∧ b.length > 1) then
    ierr "div_rem_core: debug_assert a.len() >= b.len() && b.len() > 1" else
  if leadingZeros (b.getLast?.getD 0) ≠ 0 then
    ierr "div_rem_core: debug_assert b.last().leading_zeros() == 0" else
  let b0 := b.getLast?.getD 0
  let b1 := b.getD (b.length - 2) 0
  let qLen := a.length - b.length + 1
  match coreLoop P b b0 b1 qLen a 0 with
  | .error e => .error e
  | .ok (qs, af, a0) =>
    let r := normalize (af ++ [a0])           -- a.data.push(a0); a.normalize()
    if cmpSlice r b ≠ .lt then ierr "div_rem_core: debug_assert_eq cmp_slice(a, b) == Less" else
    .ok (normalize qs, r)

/-! ### `div_rem`, `div_rem_ref` -/

/-- `BigUint::from(u64)` -/
def fromDigit (d : Nat) : List Nat := if d = 0 then [] else [d]

/-- the common tail of `div_rem` / `div_rem_ref`: normalise, divide, un-shift the remainder -/
def divRemKnuth (P : Params) (u d : List Nat) : Except Panic (List Nat × List Nat) :=
  let shift := leadingZeros (d.getLast?.getD 0)
  if shift = 0 then divRemCore P u d
  else
    match divRemCore P (shlBig u shift) (shlBig d shift) with
    | .error e => .error e
    | .ok (q, r) => .ok (q, shrBig r shift)

/-- `div_rem_ref(u, d)` (`Integer::div_rem` and everything that forwards to it) -/
def divRemRef (P : Params) (u d : List Nat) : Except Panic (List Nat × List Nat) :=
  if d = [] then .error .divzero
  else if u = [] then .ok ([], [])
  else if d.length = 1 then
    if d = [1] then .ok (u, [])
    else
      match divRemDigit u (d.headD 0) with
      | .error e => .error e
      | .ok (q, r) => .ok (q, fromDigit r)
  else
    match cmpSlice u d with
    | .lt => .ok ([], u)
    | .eq => .ok ([1], [])
    | .gt => divRemKnuth P u d

/-- `BigUint += u32/u64` on 64-bit digits (one digit `c`) -/
def addDigit (P : Params) (a : List Nat) (c : Nat) : List Nat :=
  if c ≠ 0 then
    let a' := if a = [] then [0] else a
    let r := add2c P a' [c]
    if r.2 ≠ 0 then r.1 ++ [r.2] else r.1
  else a

/-- `div_rem(u, d)` (by value: `BigUint / BigUint`, `BigUint % BigUint`); differs from
    `div_rem_ref` only in buffer reuse: `d.data.clear(); d += rem` and `u.set_one()` -/
def divRemVal (P : Params) (u d : List Nat) : Except Panic (List Nat × List Nat) :=
  if d = [] then .error .divzero
  else if u = [] then .ok ([], [])
  else if d.length = 1 then
    if d = [1] then .ok (u, [])
    else
      match divRemDigit u (d.headD 0) with
      | .error e => .error e
      | .ok (q, r) => .ok (q, addDigit P [] r)
  else
    match cmpSlice u d with
    | .lt => .ok ([], u)
    | .eq => .ok ([1], [])
    | .gt => divRemKnuth P u d

/-! ### BigUint API -/

/-- `BigUint::to_u32` (via `to_u64`) -/
def toU32 (a : List Nat) : Option Nat :=
  match a with
  | [] => some 0
  | [d] => if d < U32 then some d else none
  | _ => none

/-- `&a / &b`, `a /= &b`, `div_floor`, `div_euclid` -/
def divRef (P : Params) (a b : List Nat) : Except Panic (List Nat) :=
  (divRemRef P a b).map (·.1)

/-- `mod_floor` -/
def modFloor (P : Params) (a b : List Nat) : Except Panic (List Nat) :=
  (divRemRef P a b).map (·.2)

/-- `&a % &b`, `a %= &b`, `rem_euclid`: `to_u32` fast path through `rem_digit` -/
def remRef (P : Params) (a b : List Nat) : Except Panic (List Nat) :=
  match toU32 b with
  | some o => (remDigit a o).map fromDigit
  | none => (divRemRef P a b).map (·.2)

/-- `a / b` by value -/
def divVal (P : Params) (a b : List Nat) : Except Panic (List Nat) :=
  (divRemVal P a b).map (·.1)

/-- `a % b` by value -/
def remVal (P : Params) (a b : List Nat) : Except Panic (List Nat) :=
  match toU32 b with
  | some o => (remDigit a o).map fromDigit
  | none => (divRemVal P a b).map (·.2)

/-- `Integer::div_ceil for BigUint`: `if m.is_zero() { d } else { d + 1u32 }` -/
def divCeil (P : Params) (a b : List Nat) : Except Panic (List Nat) :=
  match divRemRef P a b with
  | .error e => .error e
  | .ok (d, m) => .ok (if m = [] then d else addDigit P d 1)

/-- the zero-divisor guard shared by `CheckedDiv` / `CheckedEuclid` -/
def checked {α} (isZero : Bool) (f : Except Panic α) : Except Panic (Option α) :=
  if isZero then .ok none else f.map some

def checkedDiv (P : Params) (a b : List Nat) := checked (b = []) (divRef P a b)
def checkedDivEuclid (P : Params) (a b : List Nat) := checked (b = []) (divRef P a b)
def checkedRemEuclid (P : Params) (a b : List Nat) := checked (b = []) (remRef P a b)
def checkedDivRemEuclid (P : Params) (a b : List Nat) := checked (b = []) (divRemRef P a b)

/-! ### scalar helpers used by the BigInt conventions (`d + 1u32`, `-d - 1u32`, `q - 1`, `q + 1`) -/

/-- `BigUint - u32` (`sub2(&mut data, &[other]); normalize()`) -/
def subDigit (P : Params) (a : List Nat) (c : Nat) : Except Panic (List Nat) :=
  (sub2 P a [c]).map normalize

/-- `u32 - BigUint` -/
def digitSub (c : Nat) (a : List Nat) : Except Panic (List Nat) :=
  if a = [] then .ok (normalize [c]) else (sub2rev [c] a).map normalize

/-- `BigInt::from(BigUint)` -/
def BigInt.fromBU (m : List Nat) : BigInt := if m = [] then ⟨.nosign, []⟩ else ⟨.plus, m⟩

/-- `BigInt::from(u32)` -/
def BigInt.fromU (c : Nat) : BigInt := if c > 0 then ⟨.plus, fromDigit c⟩ else ⟨.nosign, []⟩

/-- `BigInt + u32` -/
def BigInt.addU (P : Params) (a : BigInt) (c : Nat) : Except Panic BigInt :=
  match a.sign with
  | .nosign => .ok (BigInt.fromU c)
  | .plus => .ok (BigInt.fromBU (addDigit P a.mag c))
  | .minus =>
    match cmpSlice a.mag (fromDigit c) with
    | .eq => .ok ⟨.nosign, []⟩
    | .lt => (digitSub c a.mag).map BigInt.fromBU
    | .gt => (subDigit P a.mag c).map (fun m => (BigInt.fromBU m).neg)

/-- `BigInt - u32` -/
def BigInt.subU (P : Params) (a : BigInt) (c : Nat) : Except Panic BigInt :=
  match a.sign with
  | .nosign => .ok (BigInt.fromU c).neg
  | .minus => .ok (BigInt.fromBU (addDigit P a.mag c)).neg
  | .plus =>
    match cmpSlice a.mag (fromDigit c) with
    | .eq => .ok ⟨.nosign, []⟩
    | .gt => (subDigit P a.mag c).map BigInt.fromBU
    | .lt => (digitSub c a.mag).map (fun m => (BigInt.fromBU m).neg)

/-! ### BigInt conventions -/

/-- `Integer::div_rem for BigInt` (truncating; `r.sign == self.sign`) -/
def BigInt.divRem (P : Params) (a b : BigInt) : Except Panic (BigInt × BigInt) :=
  match divRemRef P a.mag b.mag with
  | .error e => .error e
  | .ok (dU, rU) =>
    let d := BigInt.fromBiguint a.sign dU
    let r := BigInt.fromBiguint a.sign rU
    if b.sign = .minus then .ok (d.neg, r) else .ok (d, r)

/-- `&a / &b` -/
def BigInt.div (P : Params) (a b : BigInt) : Except Panic BigInt :=
  (BigInt.divRem P a b).map (·.1)

/-- `BigInt::to_u32` (via `to_u64`) -/
def BigInt.toU32 (b : BigInt) : Option Nat :=
  match b.sign with
  | .plus => NB.toU32 b.mag
  | .nosign => some 0
  | .minus => none

/-- magnitude of `BigInt::to_i32` for a negative value that fits; positive values that fit
    `i32` are already caught by `to_u32` -/
def BigInt.toI32Abs (b : BigInt) : Option Nat :=
  match b.sign with
  | .plus => match NB.toU32 b.mag with
    | some d => if d < I32MINABS then some d else none
    | none => none
  | .nosign => some 0
  | .minus =>
    match b.mag with
    | [] => some 0
    | [d] => if d ≤ I32MINABS then some d else none
    | _ => none

/-- `BigInt % u32`: `from_biguint(self.sign, self.data % other)` through `rem_digit` -/
def BigInt.remU (a : BigInt) (o : Nat) : Except Panic BigInt :=
  (remDigit a.mag o).map (fun r => BigInt.fromBiguint a.sign (fromDigit r))

/-- `&a % &b`: `to_u32`, then `to_i32` (`self % other.unsigned_abs()`), then `div_rem` -/
def BigInt.rem (P : Params) (a b : BigInt) : Except Panic BigInt :=
  match b.toU32 with
  | some o => a.remU o
  | none =>
    match b.toI32Abs with
    | some o => a.remU o
    | none => (BigInt.divRem P a b).map (·.2)

/-- sign classes of the floor/ceil matches: `some true` for `(Plus,Plus)|(NoSign,Plus)|(Minus,Minus)`,
    `some false` for `(Plus,Minus)|(NoSign,Minus)|(Minus,Plus)`, `none` for `(_, NoSign)` -/
def sameSignClass (sa sb : Sign) : Option Bool :=
  match sa, sb with
  | _, .nosign => none
  | .plus, .plus | .nosign, .plus | .minus, .minus => some true
  | .plus, .minus | .nosign, .minus | .minus, .plus => some false

/-- `Integer::div_floor for BigInt` -/
def BigInt.divFloor (P : Params) (a b : BigInt) : Except Panic BigInt :=
  match divRemRef P a.mag b.mag with
  | .error e => .error e
  | .ok (dU, m) =>
    let d := BigInt.fromBU dU
    match sameSignClass a.sign b.sign with
    | none => ierr "div_floor: unreachable!()"
    | some true => .ok d
    | some false => if m = [] then .ok d.neg else BigInt.subU P d.neg 1

/-- `Integer::mod_floor for BigInt` -/
def BigInt.modFloor (P : Params) (a b : BigInt) : Except Panic BigInt :=
  match NB.modFloor P a.mag b.mag with
  | .error e => .error e
  | .ok mU =>
    let m := BigInt.fromBiguint b.sign mU
    match sameSignClass a.sign b.sign with
    | none => ierr "mod_floor: unreachable!()"
    | some true => .ok m
    | some false => if m.sign = .nosign then .ok m else BigInt.sub P b m

/-- evaluate both components of a returned pair (either may, in the model, fail) -/
def pairOk {α β} (x : Except Panic α) (y : Except Panic β) : Except Panic (α × β) :=
  match x, y with
  | .ok u, .ok v => .ok (u, v)
  | .error e, _ => .error e
  | _, .error e => .error e

/-- `Integer::div_mod_floor for BigInt` -/
def BigInt.divModFloor (P : Params) (a b : BigInt) : Except Panic (BigInt × BigInt) :=
  match divRemRef P a.mag b.mag with
  | .error e => .error e
  | .ok (dU, mU) =>
    let d := BigInt.fromBU dU
    let m := BigInt.fromBiguint b.sign mU
    match sameSignClass a.sign b.sign with
    | none => ierr "div_mod_floor: unreachable!()"
    | some true => .ok (d, m)
    | some false =>
      if m.sign = .nosign then .ok (d.neg, m)
      else
        pairOk (BigInt.subU P d.neg 1) (BigInt.sub P b m)

/-- `Integer::div_ceil for BigInt` -/
def BigInt.divCeil (P : Params) (a b : BigInt) : Except Panic BigInt :=
  match divRemRef P a.mag b.mag with
  | .error e => .error e
  | .ok (dU, m) =>
    let d := BigInt.fromBU dU
    match sameSignClass a.sign b.sign with
    | none => ierr "div_ceil: unreachable!()"
    | some false => .ok d.neg
    | some true => if m = [] then .ok d else BigInt.addU P d 1

/-- `Euclid::div_euclid for BigInt` (`q - 1`, `q + 1` are `BigInt ∓ 1i32 = BigInt ∓ 1u32`) -/
def BigInt.divEuclid (P : Params) (a b : BigInt) : Except Panic BigInt :=
  match BigInt.divRem P a b with
  | .error e => .error e
  | .ok (q, r) =>
    if r.sign = .minus then
      if b.sign = .plus then BigInt.subU P q 1 else BigInt.addU P q 1
    else .ok q

/-- `Euclid::rem_euclid for BigInt` (starts from `self % v`, fast paths included) -/
def BigInt.remEuclid (P : Params) (a b : BigInt) : Except Panic BigInt :=
  match BigInt.rem P a b with
  | .error e => .error e
  | .ok r =>
    if r.sign = .minus then
      if b.sign = .plus then BigInt.add P r b else BigInt.sub P r b
    else .ok r

/-- `Euclid::div_rem_euclid for BigInt` -/
def BigInt.divRemEuclid (P : Params) (a b : BigInt) : Except Panic (BigInt × BigInt) :=
  match BigInt.divRem P a b with
  | .error e => .error e
  | .ok (q, r) =>
    if r.sign = .minus then
      if b.sign = .plus then
        pairOk (BigInt.subU P q 1) (BigInt.add P r b)
      else
        pairOk (BigInt.addU P q 1) (BigInt.sub P r b)
    else .ok (q, r)

def BigInt.isZero (b : BigInt) : Bool := b.sign = .nosign

def BigInt.checkedDiv (P : Params) (a b : BigInt) := checked b.isZero (BigInt.div P a b)
def BigInt.checkedDivEuclid (P : Params) (a b : BigInt) := checked b.isZero (BigInt.divEuclid P a b)
def BigInt.checkedRemEuclid (P : Params) (a b : BigInt) := checked b.isZero (BigInt.remEuclid P a b)
def BigInt.checkedDivRemEuclid (P : Params) (a b : BigInt) := checked b.isZero (BigInt.divRemEuclid P a b)

end NB
