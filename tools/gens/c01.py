"""C01 — addition / subtraction request generator."""
from genlib import *

def lengths(rng, tier):
    base = list(range(0, 13)) + [5 * k + d for k in range(1, 9) for d in (-1, 0, 1)]
    mx = 400 if tier == "thorough" else 64
    return base + [rng.randrange(0, mx) for _ in range(20)]

def pair_patterns(rng, la, lb):
    """operand pairs (as ints) that stress carry / borrow chains"""
    out = []
    a = big(rng, la); b = big(rng, lb); out.append((a, b))
    # all-ones chain crossing block boundaries and running into the longer tail
    lo, hi = min(la, lb), max(la, lb)
    if hi > 0:
        ones = val([MAX] * hi)
        out.append((ones, 1))
        out.append((ones, val([MAX] * lo)))
        out.append((val([MAX] * lo + [0] * (hi - lo - 1) + ([1] if hi > lo else [])), val([1] + [0] * (lo - 1)) if lo else 0))
        k = rng.randrange(hi)
        out.append((val([MAX] * k + [rng.randrange(B)] + [MAX] * (hi - k - 1)), val([rng.randrange(1, B)] + [0] * max(0, lo - 1))))
        # borrow chain ending at the top digit: B^(hi-1) - small
        out.append((val([0] * (hi - 1) + [1]), rng.randrange(1, B)))
        out.append((val([0] * (hi - 1) + [1]), val([MAX] * lo) if lo < hi else 1))
        out.append((a, a)); out.append((a, a + 1)); out.append((a + 1, a))
        out.append((a, max(a - 1, 0)))
        # carry start/stop at each offset relative to a block boundary
        s = rng.randrange(hi); e = rng.randrange(s, hi)
        x = [rng.randrange(B) for _ in range(hi)]
        for i in range(s, e + 1): x[i] = MAX
        y = [0] * hi; y[s] = rng.randrange(1, B)
        out.append((val(canon(x)), val(y[:max(lo, s + 1)])))
    return out

def complement_reqs(rng, tier):
    """complement pairs x + (B^n − x) (= B^n: equal digit counts, the leading digits sum to MAX and the carry from below
    decides the length), B^n − x ± 1, and the matching subtractions B^n − x, B^n ± 1 − x, through every add / sub entry
    point incl. BigInt sign combinations (C01-j1: an exact-size `&a + &b` that decides the result length from the
    leading digits alone)"""
    reqs = []
    ops_u = ["u.add", "u.add_assign", "u.checked_add"]
    ops_i = ["i.add", "i.sub", "i.add_assign", "i.sub_assign", "i.checked_add", "i.checked_sub"]
    for n in [1, 2, 3, 4, 5, 6, 9, 10, 11, 33] + ([17, 64, 100] if tier == "thorough" else []):
        for _ in range(3 if tier != "thorough" else 8):
            x = rng.choice([big(rng, n), val([rng.choice([0, MAX, 1, rng.randrange(B)]) for _ in range(n - 1)] + [rng.randrange(1, B)]), val([MAX] * (n - 1) + [5])])
            Bn = 1 << (64 * n)
            if not 0 < x < Bn:
                continue
            for y in (Bn - x, Bn - x - 1, Bn - x + 1):
                if y < 0:
                    continue
                for op in ops_u:
                    a, b = (x, y) if rng.randrange(2) else (y, x)
                    reqs.append("C01 %s %s %s" % (op, wu(a), wu(b)))
                for op in ops_i:
                    sa = rng.choice([1, -1]); sb = sa if op.endswith("add") or "add" in op else -sa
                    reqs.append("C01 %s %s %s" % (op, wi(sa * x), wi(sb * y)))
            for t in (Bn, Bn + 1, Bn - 1):
                if t >= x:
                    reqs.append("C01 %s %s %s" % (rng.choice(["u.sub", "u.sub_assign", "u.sub_refval", "u.checked_sub"]), wu(t), wu(x)))
    return reqs

def gen(rng, tier):
    reqs = complement_reqs(rng, tier)
    n_rounds = 12 if tier == "thorough" else 1
    for _ in range(n_rounds):
        ls = lengths(rng, tier)
        for la in ls:
            for lb in {la, max(0, la - 1), la + 1, max(0, la - 4), la + 5, la + 6, rng.choice(ls)}:
                for (a, b) in pair_patterns(rng, la, lb):
                    if rng.randrange(2): a, b = b, a
                    op = rng.choice(["u.add", "u.add_assign", "u.checked_add", "u.sub", "u.sub", "u.sub_assign",
                                     "u.sub_refval", "u.checked_sub"])
                    reqs.append("C01 %s %s %s" % (op, wu(a), wu(b)))
                    if op.startswith("u.sub") and a < b and rng.randrange(3):
                        reqs.append("C01 %s %s %s" % (op, wu(b), wu(a)))
                    iop = rng.choice(["i.add", "i.sub", "i.add_assign", "i.sub_assign", "i.checked_add", "i.checked_sub"])
                    reqs.append("C01 %s %s %s" % (iop, wi(signed(rng, a)), wi(signed(rng, b))))
        # scalar on the left (`u32/u64/u128 - BigUint`): the result is computed in the big operand's buffer;
        # underflow must panic for every width, also when the subtrahend has a single digit
        for (op, bits) in (("u.sub_from_u32", 32), ("u.sub_from_u64", 64), ("u.sub_from_u128", 128)):
            top = (1 << bits) - 1
            for sc in (0, 1, 2, 5, top, top - 1, 1 << (bits - 1), rng.randrange(top + 1)):
                for b in (0, 1, 2, sc, sc + 1, max(sc - 1, 0), MAX, B, B + 1, B * B, rng.randrange(1, B), big(rng, 2), big(rng, 3),
                          (sc + rng.randrange(1, 1 << 20))):
                    reqs.append("C01 %s %d %s" % (op, sc, wu(b)))
        # scalar on the right (`BigUint ± u64/u128`, also `+=`/`-=`): a u128 is always split into `[lo, hi]`, also when
        # hi == 0; zero and one-digit receivers; underflow must panic for every width
        for (sfx, bits) in (("u64", 64), ("u128", 128)):
            top = (1 << bits) - 1
            for sc in (0, 1, 5, MAX, top, top - 1, 1 << (bits - 1), B if bits > 64 else 7, rng.randrange(top + 1), rng.randrange(1, B)):
                for a in (0, 1, sc, sc + 1, max(sc - 1, 0), MAX, B, B + 1, B * B, B * B - 1, big(rng, 2), big(rng, 3), big(rng, 6),
                          val([MAX] * 3)):
                    reqs.append("C01 u.add_%s %s %d" % (sfx, wu(a), sc))
                    reqs.append("C01 u.sub_%s %s %d" % (sfx, wu(a), sc))
        # internal add2 on raw slices
        for la in ls:
            for lb in {0, 1, la, max(0, la - 1), max(0, la - 5), la // 2}:
                if lb > la: continue
                a = digits(rng, la); b = digits(rng, lb)
                reqs.append("C01 raw.add2 %s %s" % (wl(a), wl(b)))
                reqs.append("C01 raw.add2 %s %s" % (wl([MAX] * la), wl([MAX] * lb)))
    # api-coverage block: trait `CheckedAdd/CheckedSub for BigInt` (ops `*_t`) on the carry/borrow patterns above,
    # all four sign combinations, equal magnitudes with opposite signs (result zero), zero operands
    ls = lengths(rng, tier)
    for la in ls[:: (1 if tier == "thorough" else 3)]:
        for lb in {la, max(0, la - 1), la + 5}:
            for (a, b) in pair_patterns(rng, la, lb)[:6]:
                op = rng.choice(["i.checked_add_t", "i.checked_sub_t"])
                reqs.append("C01 %s %s %s" % (op, wi(signed(rng, a)), wi(signed(rng, b))))
    for a in (0, 1, MAX, B, val([MAX] * 5), val([MAX] * 6), big(rng, 11)):
        for b in (0, 1, a, a + 1, MAX):
            for (sa, sb) in ((1, 1), (1, -1), (-1, 1), (-1, -1)):
                reqs.append("C01 i.checked_add_t %s %s" % (wi(sa * a), wi(sb * b)))
                reqs.append("C01 i.checked_sub_t %s %s" % (wi(sa * a), wi(sb * b)))
    reqs += scalar_requests(rng, tier)
    return reqs


SC_BITS = {"u8": 8, "u16": 16, "u32": 32, "u64": 64, "u128": 128, "usize": 64,
           "i8": 8, "i16": 16, "i32": 32, "i64": 64, "i128": 128, "isize": 64}

def scalar_requests(rng, tier):
    """api-coverage block: scalar addition / subtraction forms (ops `u./i. add_s s_add add_assign_s sub_s s_sub
    sub_assign_s`).  Scalars: 0, 1, MAX, MIN, -1, one- and two-digit values (u128/i128: the `[lo, hi]` split, lo = 0,
    hi = MAX); big operand: zero, shorter / as long as / longer than the scalar, all-ones digits (carry out of the
    scalar's digits into the tail, growth by one digit), B^k (borrow through zero digits down to the top digit),
    |s|, |s|±1 (cancellation to zero, BigUint underflow by one), all sign combinations for BigInt."""
    out = []
    k = 0
    thorough = tier == "thorough"
    for t, bits in SC_BITS.items():
        sg = t.startswith("i")
        mx = (1 << (bits - 1)) - 1 if sg else (1 << bits) - 1
        mn = -(1 << (bits - 1)) if sg else 0
        scal = [0, 1, mx, mx - 1, 1 << (bits // 2), rng.randrange(1, mx + 1)]
        if bits == 128:
            scal += [MAX, B, B + 1, MAX << 64, (MAX << 64) & mx, (1 << 96) + 5, rng.randrange(B, mx + 1)]
        if sg:
            scal += [mn, mn + 1, -1, -rng.randrange(1, mx + 1)]
        if thorough:
            scal += [rng.randrange(mn, mx + 1) for _ in range(10)]
        scal = [s for s in dict.fromkeys(scal) if mn <= s <= mx]
        for s in scal:
            a = abs(s)
            bigs = [0, 1, a, a + 1, max(a - 1, 0), MAX, B, val([MAX] * 2), val([MAX] * 3), val([MAX] * 6), val([0, 0, 1]),
                    val([0] * 5 + [1]), big(rng, 2), big(rng, 7), big(rng, 40), (1 << bits) - 1, 1 << bits]
            if not thorough:
                rng.shuffle(bigs)
                bigs = bigs[:10] + [a, a + 1]
            for i, m in enumerate(bigs):
                tok = "%s:%d" % (t, s)
                names = ["add_s", "s_add", "add_assign_s", "sub_s", "s_sub", "sub_assign_s"]
                k += 1
                if not sg:
                    op = names[k % 6]
                    if op in ("s_add", "s_sub"):
                        out.append("C01 u.%s %s %s" % (op, tok, wu(m)))
                    else:
                        out.append("C01 u.%s %s %s" % (op, wu(m), tok))
                sm = -m if (k // 6) % 2 else m
                op = names[(k + 3 + k // 12) % 6]
                if op in ("s_add", "s_sub"):
                    out.append("C01 i.%s %s %s" % (op, tok, wi(sm)))
                else:
                    out.append("C01 i.%s %s %s" % (op, wi(sm), tok))
    return out
