//! stream C02: multiplication
use crate::wire::*;
use num_traits::CheckedMul;

pub fn handle(op: &str, a: &[&str]) -> Option<String> {
    Some(match (op, a) {
        ("u.mul_u64", [x, s]) => {
            let sc = s.parse::<u64>().ok()?;
            let a = parse_u(x)?;
            let mut b = a.clone();
            b *= sc;
            let c = &a * sc;
            let d = sc * a.clone();
            if show_u(&b) != show_u(&c) || show_u(&c) != show_u(&d) || (sc <= u32::MAX as u64 && show_u(&(&a * (sc as u32))) != show_u(&c)) {
                return Some("panic internal:scalar-forms-disagree".to_string());
            }
            ok_u(&b)
        }
        ("u.mul_u128", [x, s]) => {
            let sc = s.parse::<u128>().ok()?;
            let a = parse_u(x)?;
            let mut b = a.clone();
            b *= sc;
            let c = &a * sc;
            let d = sc * &a;
            if show_u(&b) != show_u(&c) || show_u(&c) != show_u(&d) {
                return Some("panic internal:scalar-forms-disagree".to_string());
            }
            // the BigInt i128 forms share the magnitude path
            let bi = num_bigint::BigInt::from(a.clone()) * (sc as i128);
            let _ = bi;
            ok_u(&b)
        }
        ("u.mul", [x, y]) => ok_u(&(&parse_u(x)? * &parse_u(y)?)),
        ("u.mul_assign", [x, y]) => {
            let mut v = parse_u(x)?;
            v *= &parse_u(y)?;
            ok_u(&v)
        }
        ("u.checked_mul", [x, y]) => opt_u(&parse_u(x)?.checked_mul(&parse_u(y)?)),
        ("i.mul", [x, y]) => ok_i(&(&parse_i(x)? * &parse_i(y)?)),
        ("i.mul_assign", [x, y]) => {
            let mut v = parse_i(x)?;
            v *= &parse_i(y)?;
            ok_i(&v)
        }
        ("i.checked_mul", [x, y]) => opt_i(&parse_i(x)?.checked_mul(&parse_i(y)?)),
        #[cfg(num_bigint_verif)]
        ("raw.mac3", [acc, b, c]) => {
            let mut acc = parse_limbs(acc)?;
            let b = parse_limbs(b)?;
            let c = parse_limbs(c)?;
            num_bigint::verif::mac3(&mut acc, &b, &c);
            format!("ok {}", show_limbs(&acc))
        }
        #[cfg(num_bigint_verif)]
        ("raw.sub_sign", [x, y]) => {
            let a = parse_limbs(x)?;
            let b = parse_limbs(y)?;
            let (s, m) = num_bigint::verif::sub_sign(&a, &b);
            format!("ok {}{}", show_sign(s), show_limbs(num_bigint::verif::raw_digits(&m)))
        }
        _ => return None,
    })
}
