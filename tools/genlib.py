"""Generator helpers: wire encoding and structured digit patterns (B = 2^64)."""
import random

B = 1 << 64
MAX = B - 1

def limbs_of(n):
    assert n >= 0
    out = []
    while n:
        out.append(n & MAX)
        n >>= 64
    return out

def wl(l):
    """wire for a raw limb list"""
    return "." if not l else ",".join("%x" % d for d in l)

def wu(n):
    """wire for a BigUint value (canonical)"""
    return wl(limbs_of(n))

def wi(n):
    """wire for a BigInt value (canonical)"""
    if n == 0:
        return "0."
    return ("+" if n > 0 else "-") + wu(abs(n))

def wbytes(bs):
    return "x" + "".join("%02x" % b for b in bs)

def wwords(ws):
    return "w" + ",".join("%x" % w for w in ws)

def val(l):
    v = 0
    for d in reversed(l):
        v = (v << 64) | d
    return v

SPECIAL = [0, 1, 2, MAX, MAX - 1, 1 << 63, (1 << 63) - 1, (1 << 63) + 1, 1 << 32, (1 << 32) - 1]

def digit(rng, kind=None):
    k = kind if kind is not None else rng.randrange(10)
    if k < 4:
        return rng.randrange(B)
    if k < 7:
        return rng.choice(SPECIAL)
    if k < 8:
        return MAX
    if k < 9:
        return 0
    return 1 << rng.randrange(64)

def digits(rng, n, pattern=None):
    """n raw digits with a named pattern"""
    p = pattern or rng.choice(["rand", "ones", "zeros_top1", "sparse", "mixed", "runs", "lowzero", "half"])
    if n == 0:
        return []
    if p == "rand":
        l = [rng.randrange(B) for _ in range(n)]
    elif p == "ones":
        l = [MAX] * n
    elif p == "zeros_top1":
        l = [0] * (n - 1) + [1]
    elif p == "sparse":
        l = [0] * n
        for _ in range(max(1, n // 8)):
            l[rng.randrange(n)] = digit(rng)
    elif p == "mixed":
        l = [digit(rng) for _ in range(n)]
    elif p == "runs":
        l = []
        while len(l) < n:
            run = rng.randrange(1, 9)
            d = rng.choice([0, MAX, MAX, 1, rng.randrange(B)])
            l += [d] * run
        l = l[:n]
    elif p == "lowzero":
        z = rng.randrange(0, n)
        l = [0] * z + [rng.randrange(B) for _ in range(n - z)]
    elif p == "half":
        h = n // 2
        l = [MAX] * h + [rng.randrange(B) for _ in range(n - h)]
    else:
        raise ValueError(p)
    return l

def canon(l, rng=None):
    """make the top digit non-zero (value keeps its length)"""
    l = list(l)
    if l and l[-1] == 0:
        l[-1] = 1 if rng is None else rng.randrange(1, B)
    return l

def big(rng, n, pattern=None):
    """a canonical n-digit value"""
    return val(canon(digits(rng, n, pattern), rng))

def signed(rng, v):
    return v if rng.randrange(2) else -v


# ---------------------------------------------------------------------------------------------
# op-signature-driven boundary augmentation (applied by check.py to the public-API ops of some streams)

BOUNDARY = sorted({(1 << k) + d for k in (7, 8, 15, 16, 31, 32, 63, 64, 127, 128) for d in (-1, 0, 1)} | {0, 1, 2})
AUGMENT_STREAMS = {"C01", "C02", "C03", "C05", "C07", "C08", "C11", "C13", "C19"}
AUGMENT_SKIP = ("shl", "from_f", "to_f", "set_bit", "bit ", "monty_modpow", "plain_modpow", "high_bits")   # cost hazards, non-value arguments, hook ops with preconditions

def _is_bigtok(t):
    import re
    return re.fullmatch(r"[+\-0]?(?:[0-9a-f]+(?:,[0-9a-f]+)*|\.)", t) is not None

def augment_boundaries(lines, rng, per_op=48):
    """For every public-API op (`u.*` / `i.*`) of the allow-listed streams, add requests whose big operands are
    primitive-type boundary values (2^k, 2^k ± 1 for k = 7…128, all signs for BigInt): native fast paths for
    values that fit u64/i64/u128/i128 must agree with the big path, including MIN / -1, gcd(MIN, 0), …
    Operand positions are inferred from the generator's own requests: a position is a big operand iff some request
    of that op has a multi-limb, empty or signed token there; all other tokens are copied from a sample request."""
    groups = {}
    for l in lines:
        t = l.split()
        if len(t) < 3 or t[0] not in AUGMENT_STREAMS or not (t[1].startswith("u.") or t[1].startswith("i.")):
            continue
        if any(s in (t[1] + " ") for s in AUGMENT_SKIP) or ("pow" in t[1] and "modpow" not in t[1]):
            continue
        groups.setdefault((t[0], t[1], len(t)), []).append(t)
    out = []
    for (stream, op, n), samples in sorted(groups.items()):
        signed = op.startswith("i.")
        bigpos = []
        for i in range(2, n):
            col = [s[i] for s in samples]
            if not all(_is_bigtok(c) for c in col):
                continue
            if any(("," in c) or c == "." or c == "0." or c[0] in "+-" for c in col):
                bigpos.append(i)
        if not bigpos or len(bigpos) > 3:
            continue
        tmpl = samples[rng.randrange(len(samples))]
        cnt = 0
        tries = 0
        while cnt < per_op and tries < per_op * 4:
            tries += 1
            t = list(tmpl)
            for i in bigpos:
                v = BOUNDARY[rng.randrange(len(BOUNDARY))] if rng.randrange(5) else rng.choice([0, 1, 2, 3])
                if signed and tmpl[i][:1] in "+-0" and (tmpl[i][:1] != "0" or tmpl[i] == "0."):
                    t[i] = wi(-v if rng.randrange(2) else v)
                elif any(s[i][:1] in "+-" or s[i] == "0." for s in samples):
                    t[i] = wi(-v if rng.randrange(2) else v)
                else:
                    t[i] = wu(v)
            out.append(" ".join(t))
            cnt += 1
    return out
