/- helper lemmas for NB.Model.Core (properties C04 / C19): u32 word packing, constructors,
   BigInt representation facts, the BigInt `+=` / `-=` forms -/
import NB.Lemmas.Base
import NB.Lemmas.Canon
import NB.Lemmas.AddSub
import NB.Model.Core
import NB.Props.C01
import NB.Props.C02
import NB.Props.C03
import NB.Props.C07
namespace NB.Core

theorem B_eq_B32_sq : B = B32 * B32 := by decide

/-- `lo | hi << 32` is `lo + 2^32 * hi` for a proper u32 `lo` -/
theorem or_shift_eq {lo : Nat} (hi : Nat) (h : lo < B32) : lo ||| (hi <<< u32Bits) = lo + B32 * hi := by
  have := Nat.shiftLeft_add_eq_or_of_lt (i := u32Bits) (b := lo) h hi
  rw [Nat.or_comm, ← this, Nat.shiftLeft_eq]
  unfold B32
  rw [Nat.mul_comm, Nat.add_comm]

theorem WordsOk.nil : WordsOk [] := by intro w h; cases h
theorem WordsOk.head {w : Nat} {ws : List Nat} (h : WordsOk (w :: ws)) : w < B32 := h w (by simp)
theorem WordsOk.tail {w : Nat} {ws : List Nat} (h : WordsOk (w :: ws)) : WordsOk ws :=
  fun x hx => h x (List.mem_cons_of_mem _ hx)

/-- packing u32 words into u64 digits keeps the value and yields proper digits -/
theorem chunks_spec : ∀ (ws : List Nat), WordsOk ws →
    val ((chunks2 ws).map u32ChunkToU64) = val32 ws ∧ DigitsOk ((chunks2 ws).map u32ChunkToU64)
  | [], _ => ⟨rfl, DigitsOk.nil⟩
  | [a], h => by
    have ha := h.head
    refine ⟨by simp [chunks2, u32ChunkToU64, val, val32], ?_⟩
    simp only [chunks2, List.map_cons, List.map_nil, u32ChunkToU64]
    exact DigitsOk.cons (by unfold B32 u32Bits at ha; unfold B; omega) DigitsOk.nil
  | a :: b :: t, h => by
    have ha := h.head
    have hb := h.tail.head
    obtain ⟨ih1, ih2⟩ := chunks_spec t h.tail.tail
    simp only [chunks2, List.map_cons, u32ChunkToU64, val, val32]
    rw [or_shift_eq b ha, ih1]
    refine ⟨?_, DigitsOk.cons ?_ ih2⟩
    · rw [B_eq_B32_sq]; ring
    · rw [B_eq_B32_sq]
      have : B32 * b ≤ B32 * (B32 - 1) := Nat.mul_le_mul_left _ (by omega)
      have h2 : B32 * (B32 - 1) = B32 * B32 - B32 := by rw [Nat.mul_sub, Nat.mul_one]
      have h3 : B32 ≤ B32 * B32 := Nat.le_mul_of_pos_left _ (by decide)
      omega

/-- `normalize` of proper digits is the canonical representation of the value -/
theorem normalize_eq_ofNat {a : List Nat} (h : DigitsOk a) : normalize a = ofNat (val a) := by
  rw [canon_eq_ofNat (normalize_canon h), normalize_val]

theorem assignFromSlice_eq (old ws : List Nat) (h : WordsOk ws) :
    BigUint.assignFromSlice old ws = ofNat (val32 ws) := by
  obtain ⟨h1, h2⟩ := chunks_spec ws h
  unfold BigUint.assignFromSlice
  rw [normalize_eq_ofNat h2, h1]

theorem ofNat_zero : ofNat 0 = [] := by unfold ofNat; simp
theorem ofNat_one : ofNat 1 = [1] := by
  unfold ofNat; simp; unfold ofNat; simp [B]

theorem ofNat_eq_nil_iff (n : Nat) : ofNat n = [] ↔ n = 0 := by
  constructor
  · intro h; have := congrArg val h; rwa [ofNat_val] at this
  · intro h; subst h; exact ofNat_zero

theorem isZero_iff (a : List Nat) : BigUint.isZero a = true ↔ a = [] := by
  unfold BigUint.isZero; exact List.isEmpty_iff

theorem canon_eq_nil_iff {a : List Nat} (h : Canon a) : a = [] ↔ val a = 0 :=
  ⟨fun e => by subst e; rfl, canon_val_zero h⟩

theorem canon_one : Canon [1] := by decide

/-! ### BigInt representation facts -/

theorem ofInt_zero : BigInt.ofInt 0 = ⟨.nosign, []⟩ := by simp [BigInt.ofInt]

theorem ofInt_pos {i : Int} (h : 0 < i) : BigInt.ofInt i = ⟨.plus, ofNat i.natAbs⟩ := by
  unfold BigInt.ofInt
  have h1 : ¬ i < 0 := by omega
  have h2 : ¬ i = 0 := by omega
  simp [h1, h2]

theorem ofInt_neg {i : Int} (h : i < 0) : BigInt.ofInt i = ⟨.minus, ofNat i.natAbs⟩ := by
  unfold BigInt.ofInt; simp [h]

theorem ofInt_natCast (n : Nat) : BigInt.ofInt (n : Int) = if n = 0 then ⟨.nosign, []⟩ else ⟨.plus, ofNat n⟩ := by
  by_cases h : n = 0
  · subst h; simp [ofInt_zero]
  · simp only [h, if_false]
    rw [ofInt_pos (by omega)]; simp

theorem ofInt_negNatCast (n : Nat) : BigInt.ofInt (-(n : Int)) = if n = 0 then ⟨.nosign, []⟩ else ⟨.minus, ofNat n⟩ := by
  by_cases h : n = 0
  · subst h; simp [ofInt_zero]
  · simp only [h, if_false]
    rw [ofInt_neg (by omega)]; simp

/-- sign of a canonical BigInt, read off its value -/
theorem bigint_canon_sign {x : BigInt} (h : x.Canon) :
    (x.sign = .minus ↔ x.val < 0) ∧ (x.sign = .nosign ↔ x.val = 0) ∧ (x.sign = .plus ↔ 0 < x.val) := by
  obtain ⟨hc, hs⟩ := h
  rcases x with ⟨s, m⟩
  simp only at hc hs
  cases s with
  | nosign => simp [BigInt.val]
  | plus =>
    have hne : m ≠ [] := fun h => by simpa using hs.mpr h
    have := canon_val_pos hc hne
    simp [BigInt.val]; omega
  | minus =>
    have hne : m ≠ [] := fun h => by simpa using hs.mpr h
    have := canon_val_pos hc hne
    simp [BigInt.val]; omega

/-- magnitude of a canonical BigInt -/
theorem bigint_canon_mag {x : BigInt} (h : x.Canon) : x.mag = ofNat x.val.natAbs := by
  obtain ⟨hc, hs⟩ := h
  rcases x with ⟨s, m⟩
  simp only at hc hs
  cases s with
  | nosign => have : m = [] := hs.mp rfl; subst this; simp [BigInt.val, ofNat_zero]
  | plus => simp only [BigInt.val, Int.natAbs_natCast]; exact canon_eq_ofNat hc
  | minus => simp only [BigInt.val, Int.natAbs_neg, Int.natAbs_natCast]; exact canon_eq_ofNat hc

theorem bigint_canon_unique {x y : BigInt} (hx : x.Canon) (hy : y.Canon) (h : x.val = y.val) : x = y := by
  rw [bigint_canon_eq_ofInt hx, bigint_canon_eq_ofInt hy, h]

theorem Sign.toInt_neg (s : Sign) : Sign.toInt s.neg = - Sign.toInt s := by cases s <;> rfl

theorem bigint_val_eq (x : BigInt) : x.val = Sign.toInt x.sign * (val x.mag : Int) := by
  rcases x with ⟨s, m⟩
  cases s <;> simp [BigInt.val, Sign.toInt]

/-- `from_biguint` on an ARBITRARY sign request (also inconsistent with the magnitude) yields the
    canonical BigInt of `sign * magnitude` -/
theorem fromBiguint_eq (s : Sign) {m : List Nat} (h : NB.Canon m) :
    BigInt.fromBiguint s m = BigInt.ofInt (Sign.toInt s * (val m : Int)) := by
  cases s with
  | nosign => simp [BigInt.fromBiguint, Sign.toInt, ofInt_zero]
  | plus => rw [fromBiguint_plus h]; simp [Sign.toInt]
  | minus => rw [fromBiguint_minus h]; simp [Sign.toInt]

/-! ### `BigInt += &BigInt`, `BigInt -= &BigInt` -/

theorem subMagValRef_spec (P : Params) (ma mb : List Nat) (hca : Canon ma) (hcb : Canon mb) :
    BigInt.subMagValRef P .minus .plus ma mb = .ok (BigInt.ofInt ((val ma : Int) - val mb)) ∧
    BigInt.subMagValRef P .plus .minus ma mb = .ok (BigInt.ofInt ((val mb : Int) - val ma)) := by
  unfold BigInt.subMagValRef
  rw [cmpSlice_spec hca hcb]
  have hs1 := subAssign_spec P ma mb hca hcb
  have hs2 := subRefVal_spec P mb ma hcb hca
  rcases Nat.lt_trichotomy (val ma) (val mb) with h | h | h
  · rw [Nat.compare_eq_lt.mpr h]
    have : ¬ val mb < val ma := by omega
    simp only [hs2, this, if_false]
    constructor
    · exact ok_from_minus (ofNat_canon _) (by rw [ofNat_val]; omega)
    · exact ok_from_plus (ofNat_canon _) (by rw [ofNat_val]; omega)
  · rw [Nat.compare_eq_eq.mpr h]
    simp [h, BigInt.ofInt, BigInt.zero, BigUint.zero]
  · rw [Nat.compare_eq_gt.mpr h]
    have : ¬ val ma < val mb := by omega
    simp only [hs1, this, if_false]
    constructor
    · exact ok_from_plus (ofNat_canon _) (by rw [ofNat_val]; omega)
    · exact ok_from_minus (ofNat_canon _) (by rw [ofNat_val]; omega)

theorem bigint_negVal_eq {x : BigInt} (h : x.Canon) : BigInt.negVal x = BigInt.ofInt (- x.val) := by
  have hc : (BigInt.negVal x).Canon := by
    obtain ⟨h1, h2⟩ := h
    refine ⟨h1, ?_⟩
    rcases x with ⟨s, m⟩
    cases s <;> simpa [BigInt.negVal, Sign.neg] using h2
  rw [bigint_canon_eq_ofInt hc]; congr 1
  rcases x with ⟨s, m⟩
  cases s <;> simp [BigInt.negVal, Sign.neg, BigInt.val]

/-- `a += &b` on BigInt: exact for all nine sign pairs, canonical, never panics -/
theorem bigint_addAssign_spec (P : Params) (a b : BigInt) (ha : a.Canon) (hb : b.Canon) :
    BigInt.addAssign P a b = .ok (BigInt.ofInt (a.val + b.val)) := by
  obtain ⟨sa, ma⟩ := a
  obtain ⟨sb, mb⟩ := b
  have hA := bigint_canon_eq_ofInt ha
  have hB := bigint_canon_eq_ofInt hb
  obtain ⟨hca, hsa⟩ := ha
  obtain ⟨hcb, hsb⟩ := hb
  simp only at hca hsa hcb hsb
  have hsumC := ofNat_canon (val ma + val mb)
  obtain ⟨hdp, hdm⟩ := subMagValRef_spec P ma mb hca hcb
  cases sa <;> cases sb <;>
    simp only [BigInt.addAssign, BigInt.clone, BigUint.clone, BigInt.val, addAssign_spec P ma mb hca hcb,
      Int.add_zero, Int.zero_add] at *
  · exact ok_from_minus hsumC (by rw [ofNat_val]; omega)
  · exact congrArg _ hA
  · rw [hdm]; congr 2; omega
  · exact congrArg _ hB
  · exact congrArg _ hA
  · exact congrArg _ hB
  · rw [hdp]; congr 2
  · exact congrArg _ hA
  · exact ok_from_plus hsumC (by rw [ofNat_val]; omega)

/-- `a -= &b` on BigInt: exact for all nine sign pairs, canonical, never panics -/
theorem bigint_subAssign_spec (P : Params) (a b : BigInt) (ha : a.Canon) (hb : b.Canon) :
    BigInt.subAssign P a b = .ok (BigInt.ofInt (a.val - b.val)) := by
  obtain ⟨sa, ma⟩ := a
  obtain ⟨sb, mb⟩ := b
  have hA := bigint_canon_eq_ofInt ha
  have hB := bigint_canon_eq_ofInt hb
  have hNB := bigint_negVal_eq hb
  obtain ⟨hca, hsa⟩ := ha
  obtain ⟨hcb, hsb⟩ := hb
  simp only at hca hsa hcb hsb
  have hsumC := ofNat_canon (val ma + val mb)
  obtain ⟨hdp, hdm⟩ := subMagValRef_spec P ma mb hca hcb
  cases sa <;> cases sb <;>
    simp only [BigInt.subAssign, BigInt.clone, BigUint.clone, BigInt.val, addAssign_spec P ma mb hca hcb,
      Int.sub_zero, Int.zero_sub, Sign.neg] at *
  · rw [hdm]; congr 2; omega
  · exact congrArg _ hA
  · exact ok_from_minus hsumC (by rw [ofNat_val]; omega)
  · exact congrArg _ hNB
  · exact congrArg _ hA
  · exact congrArg _ hNB
  · exact ok_from_plus hsumC (by rw [ofNat_val]; omega)
  · exact congrArg _ hA
  · rw [hdp]

/-! ### soundness of the further in-place operations of the history machine
    (multiplication: NB.Props.C02, division: NB.Props.C03, shifts / bit operations / set_bit: NB.Props.C07) -/

theorem validMulB_iff (P : Params) : validMulB P = true ↔ P.ValidMul := by
  unfold validMulB Params.ValidMul
  rw [decide_eq_true_eq]

theorem natLdiff_eq : natLdiff = Nat.ldiff := rfl
theorem intLand_eq (x y : Int) : intLand x y = Int.land x y := by cases x <;> cases y <;> rfl
theorem intLor_eq (x y : Int) : intLor x y = Int.lor x y := by cases x <;> cases y <;> rfl
theorem intXor_eq (x y : Int) : intXor x y = Int.xor x y := by cases x <;> cases y <;> rfl
theorem intLdiff_eq (x y : Int) : intLdiff x y = Int.ldiff x y := by cases x <;> cases y <;> rfl

theorem immU64_cases {imm : List Nat} (h : immU64 imm = true) : ∃ k, imm = [k] ∧ k < B := by
  rcases imm with _ | ⟨k, _ | ⟨_, _⟩⟩ <;> simp [immU64] at h
  exact ⟨k, rfl, h⟩

theorem immU32_cases {imm : List Nat} (h : immU32 imm = true) : ∃ k, imm = [k] ∧ k < B32 := by
  rcases imm with _ | ⟨k, _ | ⟨_, _⟩⟩ <;> simp [immU32] at h
  exact ⟨k, rfl, h⟩

theorem immU128_cases {imm : List Nat} (h : immU128 imm = true) : ∃ lo hi, imm = [lo, hi] ∧ lo < B ∧ hi < B := by
  rcases imm with _ | ⟨lo, _ | ⟨hi, _ | ⟨_, _⟩⟩⟩ <;> simp [immU128] at h
  exact ⟨lo, hi, rfl, h.1, h.2⟩

theorem immBit_cases {imm : List Nat} (h : immBit imm = true) : ∃ k v, imm = [k, v] ∧ k < B ∧ v < 2 := by
  rcases imm with _ | ⟨k, _ | ⟨v, _ | ⟨_, _⟩⟩⟩ <;> simp [immBit] at h
  exact ⟨k, v, rfl, h.1, h.2⟩

theorem immI128_cases {imm : List Nat} (h : immI128 imm = true) :
    ∃ neg lo hi, imm = [neg, lo, hi] ∧ lo < B ∧ hi < B ∧ (neg = 1 → 1 ≤ lo + B * hi) := by
  rcases imm with _ | ⟨n, _ | ⟨lo, _ | ⟨hi, _ | ⟨_, _⟩⟩⟩⟩ <;> simp [immI128] at h
  refine ⟨n, lo, hi, rfl, h.1.1, h.1.2, ?_⟩
  intro hn
  rcases h.2 with h2 | h2
  · omega
  · exact h2.1.2

/-- `a *= s as u128` for every `s < 2^128`: also when `a` is zero and `s` needs two digits -/
theorem mulAssignU128_spec (P : Params) (hP : P.ValidMul) (a : List Nat) (ha : Canon a) (lo hi : Nat)
    (hlo : lo < B) (hhi : hi < B) :
    BigUint.mulAssignU128 P a (lo + B * hi) = .ok (ofNat (val a * (lo + B * hi))) := by
  unfold BigUint.mulAssignU128
  by_cases hs : lo + B * hi < B
  · rw [if_pos hs, scalar_mul_val a _ ha hs]
  · rw [if_neg hs]
    have h1 : (lo + B * hi) % B = lo := by rw [Nat.add_mul_mod_self_left]; exact Nat.mod_eq_of_lt hlo
    have h2 : (lo + B * hi) / B = hi := by
      rw [Nat.add_mul_div_left _ _ B_pos, Nat.div_eq_of_lt hlo, Nat.zero_add]
    rw [h1, h2, mul3_spec P hP a [lo, hi] ha.1 (DigitsOk.cons hlo (DigitsOk.cons hhi DigitsOk.nil))]
    simp [val]

/-- a sign and a natural magnitude that agree on zero form the canonical BigInt of `sign · n` -/
theorem signed_ofNat (s : Sign) (n : Nat) (h : s = .nosign ↔ n = 0) :
    (⟨s, ofNat n⟩ : BigInt) = BigInt.ofInt (Sign.toInt s * (n : Int)) := by
  cases s with
  | nosign => have := h.mp rfl; subst this; simp [Sign.toInt, ofInt_zero, ofNat_zero]
  | plus =>
    have hn : n ≠ 0 := fun e => by simpa using h.mpr e
    simp only [Sign.toInt, Int.one_mul, ofInt_natCast, hn, if_false]
  | minus =>
    have hn : n ≠ 0 := fun e => by simpa using h.mpr e
    have : (-1 : Int) * (n : Int) = -(n : Int) := by omega
    simp only [Sign.toInt, this, ofInt_negNatCast, hn, if_false]

theorem canon_sign_mag_zero {x : BigInt} (hx : x.Canon) : x.sign = .nosign ↔ val x.mag = 0 := by
  rw [hx.2]; exact canon_eq_nil_iff hx.1

theorem bigint_mulAssignU128_spec (P : Params) (hP : P.ValidMul) (x : BigInt) (hx : x.Canon) (lo hi : Nat)
    (hlo : lo < B) (hhi : hi < B) :
    BigInt.mulAssignU128 P x (lo + B * hi) = .ok (BigInt.ofInt (x.val * ((lo + B * hi : Nat) : Int))) := by
  unfold BigInt.mulAssignU128
  rw [mulAssignU128_spec P hP x.mag hx.1 lo hi hlo hhi]
  show Except.ok _ = Except.ok _
  congr 1
  dsimp only
  generalize lo + B * hi = s
  have hz := canon_sign_mag_zero hx
  rw [bigint_val_eq x]
  by_cases hn : val x.mag * s = 0
  · rw [hn, ofNat_zero]
    have : Sign.toInt x.sign * (val x.mag : Int) * (s : Int) = 0 := by
      rw [Int.mul_assoc]; norm_cast; rw [hn]; simp
    rw [this, ofInt_zero]; simp [BigUint.isZero]
  · have hne : ¬ (BigUint.isZero (ofNat (val x.mag * s)) = true) := by
      rw [isZero_iff, ofNat_eq_nil_iff]; exact hn
    rw [if_neg hne]
    have hs : x.sign = .nosign ↔ val x.mag * s = 0 := by
      constructor
      · intro h; rw [hz.mp h]; simp
      · intro h; exact absurd h hn
    rw [signed_ofNat x.sign _ hs]; congr 1; push_cast; ring

theorem bigint_mulAssignI128_spec (P : Params) (hP : P.ValidMul) (x : BigInt) (hx : x.Canon) (neg : Bool) (lo hi : Nat)
    (hlo : lo < B) (hhi : hi < B) (hpos : neg = true → 1 ≤ lo + B * hi) :
    BigInt.mulAssignI128 P x neg (lo + B * hi) =
      .ok (BigInt.ofInt (x.val * (if neg then -((lo + B * hi : Nat) : Int) else ((lo + B * hi : Nat) : Int)))) := by
  unfold BigInt.mulAssignI128
  cases neg with
  | false => simp only [Bool.false_eq_true, if_false]; exact bigint_mulAssignU128_spec P hP x hx lo hi hlo hhi
  | true =>
    simp only [if_true]
    rw [mulAssignU128_spec P hP x.mag hx.1 lo hi hlo hhi]
    show Except.ok _ = Except.ok _
    congr 1
    dsimp only
    have hu := hpos rfl
    generalize lo + B * hi = s at *
    have hz := canon_sign_mag_zero hx
    have hs : x.sign.neg = .nosign ↔ val x.mag * s = 0 := by
      constructor
      · intro h
        have : x.sign = .nosign := by cases hsx : x.sign <;> simp [hsx, Sign.neg] at h ⊢
        rw [hz.mp this]; simp
      · intro h
        have : val x.mag = 0 := by
          rcases Nat.mul_eq_zero.mp h with h | h
          · exact h
          · omega
        rw [hz.mpr this]; rfl
    rw [signed_ofNat x.sign.neg _ hs, Sign.toInt_neg, bigint_val_eq x]; congr 1; push_cast; ring

theorem uMulOp_sound : uMulOp.Sound := by
  intro P hv a b imm ha hb _
  simp [uMulOp, mulAssign_spec P ((validMulB_iff P).mp hv) a b ha hb, Except.toOption]

theorem uMul32Op_sound : uMul32Op.Sound := by
  intro P _ a b imm ha _ hi
  obtain ⟨k, rfl, hk⟩ := immU32_cases hi
  have hk' : k < B := by unfold B32 u32Bits at hk; unfold B; omega
  simp [uMul32Op, imm0, scalar_mul_val a k ha hk', Except.toOption]

theorem uMul64Op_sound : uMul64Op.Sound := by
  intro P _ a b imm ha _ hi
  obtain ⟨k, rfl, hk⟩ := immU64_cases hi
  simp [uMul64Op, imm0, scalar_mul_val a k ha hk, Except.toOption]

theorem uMul128Op_sound : uMul128Op.Sound := by
  intro P hv a b imm ha _ hi
  obtain ⟨lo, hi', rfl, h1, h2⟩ := immU128_cases hi
  simp [uMul128Op, imm0, imm1, mulAssignU128_spec P ((validMulB_iff P).mp hv) a ha lo hi' h1 h2, Except.toOption]

theorem uDivOp_sound : uDivOp.Sound := by
  intro P _ a b imm ha hb _
  simp only [uDivOp, divRef_spec P a b ha hb, canon_eq_nil_iff hb]
  split <;> simp [Except.toOption]

theorem uRemOp_sound : uRemOp.Sound := by
  intro P _ a b imm ha hb _
  simp only [uRemOp, remRef_spec P a b ha hb, canon_eq_nil_iff hb]
  split <;> simp [Except.toOption]

theorem uShlOp_sound : uShlOp.Sound := by
  intro P _ a b imm ha _ hi
  obtain ⟨k, rfl, hk⟩ := immU64_cases hi
  have hcap : a ≠ [] → ((k : Nat) : Int).toNat / C07.BITS < C07.USIZE_RANGE := by
    intro _; simp only [Int.toNat_natCast]
    exact Nat.lt_of_le_of_lt (Nat.div_le_self _ _) hk
  simp [uShlOp, imm0, C07.shl_spec a (k : Nat) ha (by omega) hcap, Except.toOption]

theorem biguintShr_small (a : List Nat) (k : Nat) (ha : Canon a) (hk : k < B) :
    C07.biguintShr a (k : Nat) = .ok (ofNat (val a / 2 ^ k)) := by
  unfold C07.biguintShr
  have hk' : ¬ ((k : Nat) : Int) < 0 := by omega
  simp only [hk', if_false, Int.toNat_natCast]
  by_cases h0 : a = []
  · subst h0; simp [val, ofNat_zero]
  · simp only [h0, if_false]
    have hq : k / C07.BITS < C07.USIZE_RANGE := Nat.lt_of_le_of_lt (Nat.div_le_self _ _) hk
    simp only [hq, if_true]
    obtain ⟨h1, h2⟩ := C07.shr2_spec a (k / C07.BITS) (k % C07.BITS) ha.1 (Nat.mod_lt _ (by decide))
    rw [Nat.div_add_mod] at h1
    rw [canon_eq_ofNat h2, h1]

theorem uShrOp_sound : uShrOp.Sound := by
  intro P _ a b imm ha _ hi
  obtain ⟨k, rfl, hk⟩ := immU64_cases hi
  simp [uShrOp, imm0, biguintShr_small a k ha hk, Except.toOption]

theorem uAndOp_sound : uAndOp.Sound := by
  intro P _ a b imm ha hb _
  simp [uAndOp, C07.andAssign_spec a b ha hb, Except.toOption]

theorem uOrOp_sound : uOrOp.Sound := by
  intro P _ a b imm ha hb _
  simp [uOrOp, C07.orAssign_spec a b ha hb, Except.toOption]

theorem uXorOp_sound : uXorOp.Sound := by
  intro P _ a b imm ha hb _
  simp [uXorOp, C07.xorAssign_spec a b ha hb, Except.toOption]

theorem uSetBitOp_sound : uSetBitOp.Sound := by
  intro P _ a b imm ha _ hi
  obtain ⟨k, v, rfl, _, hv⟩ := immBit_cases hi
  have : v = 0 ∨ v = 1 := by omega
  rcases this with rfl | rfl
  · simp [uSetBitOp, imm0, imm1, C07.set_bit_false_spec_u a ha k, Except.toOption, natLdiff_eq]
  · simp [uSetBitOp, imm0, imm1, C07.set_bit_true_spec_u a ha k, Except.toOption]

theorem iMulOp_sound : iMulOp.Sound := by
  intro P hv a b imm ha hb _
  simp [iMulOp, bigint_mulAssign_spec P ((validMulB_iff P).mp hv) a b ha hb, Except.toOption]

theorem iMul128Op_sound : iMul128Op.Sound := by
  intro P hv a b imm ha _ hi
  obtain ⟨lo, hi', rfl, h1, h2⟩ := immU128_cases hi
  simp [iMul128Op, imm0, imm1, bigint_mulAssignU128_spec P ((validMulB_iff P).mp hv) a ha lo hi' h1 h2, Except.toOption]

theorem iMulI128Op_sound : iMulI128Op.Sound := by
  intro P hv a b imm ha _ hi
  obtain ⟨n, lo, hi', rfl, h1, h2, h3⟩ := immI128_cases hi
  have hp : (n == 1) = true → 1 ≤ lo + B * hi' := fun h => h3 (by simpa using h)
  simp only [iMulI128Op, imm0, imm1, imm2, List.getD_cons_zero, List.getD_cons_succ,
    bigint_mulAssignI128_spec P ((validMulB_iff P).mp hv) a ha (n == 1) lo hi' h1 h2 hp, Except.toOption,
    Option.map_some]

theorem iDivOp_sound : iDivOp.Sound := by
  intro P _ a b imm ha hb _
  simp only [iDivOp, bigint_div_spec P a b ha hb]
  split <;> simp [Except.toOption]

theorem iRemOp_sound : iRemOp.Sound := by
  intro P _ a b imm ha hb _
  simp only [iRemOp, bigint_rem_spec P a b ha hb]
  split <;> simp [Except.toOption]

theorem iShlOp_sound : iShlOp.Sound := by
  intro P _ a b imm ha _ hi
  obtain ⟨k, rfl, hk⟩ := immU64_cases hi
  have hcap : a.mag ≠ [] → ((k : Nat) : Int).toNat / C07.BITS < C07.USIZE_RANGE := by
    intro _; simp only [Int.toNat_natCast]
    exact Nat.lt_of_le_of_lt (Nat.div_le_self _ _) hk
  simp [iShlOp, imm0, C07.bigint_shlAssign_spec a (k : Nat) ha (by omega) hcap, Except.toOption]

theorem iShrOp_sound : iShrOp.Sound := by
  intro P _ a b imm ha _ hi
  obtain ⟨k, rfl, hk⟩ := immU64_cases hi
  have hm : digitLen a.val.natAbs = a.mag.length := by unfold digitLen; rw [← bigint_canon_mag ha]
  simp only [iShrOp, imm0, List.getD_cons_zero, hm]
  by_cases hp : physOk a.mag.length = true
  · have hlen : C07.BITS * a.mag.length < C07.U64_RANGE := by simpa [physOk] using hp
    simp [hp, C07.bigint_shrAssign_spec P a (k : Nat) ha (by omega) hlen, Except.toOption]
  · simp [hp, Except.toOption]

theorem iAndOp_sound : iAndOp.Sound := by
  intro P _ a b imm ha hb _
  simp [iAndOp, C07.bigint_andAssign_spec a b ha hb, Except.toOption, intLand_eq]

theorem iOrOp_sound : iOrOp.Sound := by
  intro P _ a b imm ha hb _
  simp [iOrOp, C07.bigint_orAssign_spec a b ha hb, Except.toOption, intLor_eq]

theorem iXorOp_sound : iXorOp.Sound := by
  intro P _ a b imm ha hb _
  simp [iXorOp, C07.bigint_xorAssign_spec a b ha hb, Except.toOption, intXor_eq]

theorem iSetBitOp_sound : iSetBitOp.Sound := by
  intro P _ a b imm ha _ hi
  obtain ⟨k, v, rfl, _, hv⟩ := immBit_cases hi
  have : v = 0 ∨ v = 1 := by omega
  rcases this with rfl | rfl
  · simp [iSetBitOp, imm0, imm1, C07.bigint_set_bit_spec a k false ha, Except.toOption, intLdiff_eq]
  · simp [iSetBitOp, imm0, imm1, C07.bigint_set_bit_spec a k true ha, Except.toOption, intLor_eq]

end NB.Core
