/-
  NB.Model.AsmDefs — instruction subset of the two inline-asm loops (import-free).
  Registers are numbered by their position in the asm! operand list (see NB.Gen.AsmProg).
  Memory operands address 64-bit digits: `[{base} + 8*{idx} + 8*off]` is digit `idx + off`
  behind pointer `base`; the `…n` forms have no index register (`[{base} + 8*off]`).
-/
namespace NB.Asm

inductive Instr where
  | clc
  | label (n : Nat)
  /-- `mov {dst}, qword ptr [{base} + 8*{idx} + 8*off]` -/
  | load (dst base idx off : Nat)
  /-- `mov qword ptr [{base} + 8*{idx} + 8*off], {src}` -/
  | store (base idx off src : Nat)
  | adc (dst src : Nat)
  | sbb (dst src : Nat)
  | inc (r : Nat)
  | dec (r : Nat)
  | jnz (n : Nat)
  | setc (r : Nat)
  /-- `mov {dst}, qword ptr [{base} + 8*off]` (no index register) -/
  | loadn (dst base off : Nat)
  /-- `mov qword ptr [{base} + 8*off], {src}` (no index register) -/
  | storen (base off src : Nat)
  /-- `adc {dst}, qword ptr [{base} + 8*{idx} + 8*off]` -/
  | adcm (dst base idx off : Nat)
  /-- `sbb {dst}, qword ptr [{base} + 8*{idx} + 8*off]` -/
  | sbbm (dst base idx off : Nat)
  /-- `adc {dst}, qword ptr [{base} + 8*off]` -/
  | adcmn (dst base off : Nat)
  /-- `sbb {dst}, qword ptr [{base} + 8*off]` -/
  | sbbmn (dst base off : Nat)
  /-- `lea {dst}, [{src} + imm]`: `dst := src + imm`, no flag is touched -/
  | lea (dst src imm : Nat)
  /-- `add {r}, imm`: writes CF and ZF -/
  | addi (r imm : Nat)
  /-- `sub {r}, imm`: writes CF and ZF -/
  | subi (r imm : Nat)
  deriving DecidableEq, Repr, Inhabited

end NB.Asm
