/-
  C13 — GCD, LCM, Bézout coefficients and multiple-of helpers are exact.

  Model: NB.Model.Gcd (value-level transcription of the gcd family of `impl Integer for BigUint` /
  `impl Integer for BigInt` and of num-integer 0.1.47's default `extended_gcd` loop;
  correspondence-checked against the crate on every run).  Specs are `Nat.gcd`, `Nat.lcm`, `Int.gcd`,
  `Int.lcm`, `∣`, `Int.fmod`.  Every loop takes fuel and the fuel the model passes is proved
  sufficient; every internal panic site of the model (`m -= &n` underflow, division by the gcd,
  `unreachable!()`) is shown unreachable by the equalities below (the result is `.ok …`).
-/
import NB.Lemmas.Gcd
import NB.Lemmas.GcdD
import NB.Model.AsmParams
import NB.Drv.C13
namespace NB
open NB.Gcd NB.IntVal

/-! ### BigUint gcd (Stein) -/

/-- `twos` is the 2-adic valuation -/
theorem twos_valuation {x : Nat} (hx : x ≠ 0) : 2 ^ twos x ∣ x ∧ (x / 2 ^ twos x) % 2 = 1 := twos_spec hx

/-- the loop of Stein's algorithm: for odd `n` and fuel `> m + n` it returns `gcd m n`
    (in particular the in-loop subtraction never underflows and the loop terminates) -/
theorem stein_loop_spec (fuel m n : Nat) (hn : n % 2 = 1) (hf : m + n < fuel) :
    steinLoop fuel m n = .ok (Nat.gcd m n) := steinLoop_spec fuel m n hn hf

/-- `BigUint::gcd` is the greatest common divisor, all operands -/
theorem gcd_spec (a b : Nat) : gcd a b = .ok (Nat.gcd a b) := gcd_ok a b

theorem gcd_zero_cases (a : Nat) : gcd 0 a = .ok a ∧ gcd a 0 = .ok a ∧ gcd 0 0 = .ok 0 := by
  simp [gcd_ok]

/-- `BigUint::lcm`: the division by the gcd never fails -/
theorem lcm_spec (a b : Nat) : lcm a b = .ok (Nat.lcm a b) := lcm_ok a b

/-- `lcm(a,b) = a·b / gcd(a,b)`, and `0` if either operand is `0` -/
theorem lcm_formula (a b : Nat) : Nat.lcm a b = a * b / Nat.gcd a b ∧ Nat.lcm a 0 = 0 ∧ Nat.lcm 0 b = 0 :=
  ⟨rfl, Nat.lcm_zero_right a, Nat.lcm_zero_left b⟩

theorem gcd_lcm_spec (a b : Nat) : gcdLcm a b = .ok (Nat.gcd a b, Nat.lcm a b) := gcdLcm_ok a b

/-! ### BigInt gcd / lcm -/

theorem bigint_gcd_spec (a b : Int) : bigintGcd a b = .ok (Int.gcd a b : Int) := by
  simp only [bigintGcd, gcd_ok, ofMag]; rfl

theorem bigint_lcm_spec (a b : Int) : bigintLcm a b = .ok (Int.lcm a b : Int) := by
  simp only [bigintLcm, lcm_ok, ofMag]; rfl

theorem bigint_gcd_lcm_spec (a b : Int) : bigintGcdLcm a b = .ok ((Int.gcd a b : Int), (Int.lcm a b : Int)) := by
  simp only [bigintGcdLcm, gcdLcm_ok, ofMag]; rfl

/-! ### Bézout coefficients (num-integer's default `extended_gcd` on BigInt) -/

/-- loop invariant `a·sᵢ + b·tᵢ = rᵢ`, gcd preserved, `|r.0|` strictly decreasing -/
theorem egcd_loop_spec (a b : Int) (fuel : Nat) (s0 s1 t0 t1 r0 r1 : Int)
    (h0 : a * s0 + b * t0 = r0) (h1 : a * s1 + b * t1 = r1) (hf : r0.natAbs < fuel) :
    ∃ g x y, egcdLoop fuel s0 s1 t0 t1 r0 r1 = .ok (g, x, y) ∧ a * x + b * y = g ∧ g.natAbs = Int.gcd r0 r1 :=
  egcdLoop_spec a b fuel s0 s1 t0 t1 r0 r1 h0 h1 hf

/-- `extended_gcd` returns `(g, x, y)` with `a·x + b·y = g` and `g = gcd(a, b) ≥ 0`, all signs -/
theorem egcd_spec (a b : Int) :
    ∃ g x y, extendedGcd a b = .ok (g, x, y) ∧ a * x + b * y = g ∧ g = (Int.gcd a b : Int) := by
  obtain ⟨x, y, e, h⟩ := extendedGcd_ok a b
  exact ⟨_, x, y, e, h, rfl⟩

/-- `BigInt::extended_gcd_lcm`: same identities plus the lcm -/
theorem egcd_lcm_spec (a b : Int) :
    ∃ g x y l, extendedGcdLcm a b = .ok ((g, x, y), l) ∧ a * x + b * y = g ∧ g = (Int.gcd a b : Int) ∧
      l = (Int.lcm a b : Int) := by
  obtain ⟨x, y, e, h⟩ := extendedGcd_ok a b
  unfold extendedGcdLcm
  rw [e]
  simp only
  by_cases hg : ((Int.gcd a b : Nat) : Int) = 0
  · rw [if_pos hg]
    refine ⟨_, x, y, _, rfl, h, rfl, ?_⟩
    have : Int.gcd a b = 0 := by exact_mod_cast hg
    obtain ⟨rfl, rfl⟩ := Int.gcd_eq_zero_iff.mp this
    simp
  · rw [if_neg hg]
    have hn : Nat.gcd a.natAbs b.natAbs ≠ 0 := by
      intro h0; apply hg; show ((Nat.gcd a.natAbs b.natAbs : Nat) : Int) = 0; rw [h0]; rfl
    have e2 : ((Int.gcd a b : Nat) : Int).natAbs = Nat.gcd a.natAbs b.natAbs := by
      rw [Int.natAbs_natCast]; rfl
    simp only [udiv, e2, hn, if_false, div_gcd_mul _ _ hn, ofMag]
    exact ⟨_, x, y, _, rfl, h, rfl, rfl⟩

/-! ### multiples -/

/-- `BigUint::is_multiple_of` is divisibility; only zero is a multiple of zero -/
theorem is_multiple_of_spec (a b : Nat) : isMultipleOf a b = .ok (decide (b ∣ a)) := isMultipleOf_ok a b

theorem multiple_of_zero (a : Nat) : isMultipleOf a 0 = .ok (decide (a = 0)) := by
  simp [isMultipleOf]

theorem bigint_is_multiple_of_spec (a b : Int) : bigintIsMultipleOf a b = .ok (decide (b ∣ a)) := by
  unfold bigintIsMultipleOf
  rw [isMultipleOf_ok]
  congr 1
  exact decide_eq_decide.mpr Int.natAbs_dvd_natAbs

theorem bigint_multiple_of_zero (a : Int) : bigintIsMultipleOf a 0 = .ok (decide (a = 0)) := by
  rw [bigint_is_multiple_of_spec]
  congr 1
  exact decide_eq_decide.mpr Int.zero_dvd

/-- `BigUint::next_multiple_of`: panics (division by zero) iff `b = 0`; otherwise the least multiple `≥ a` -/
theorem next_multiple_spec (a b : Nat) :
    nextMultipleOf a b = if b = 0 then .error .divzero else .ok ((a + b - 1) / b * b) := by
  unfold nextMultipleOf umod usub
  by_cases hb : b = 0
  · simp [hb]
  · simp only [hb, if_false]
    have hlt := Nat.mod_lt a (show b > 0 by omega)
    have hdm := Nat.div_add_mod a b
    by_cases hm : a % b = 0
    · simp only [hm, if_true]
      congr 1
      have : (a + b - 1) / b = a / b := by
        apply Nat.div_eq_of_lt_le
        · rw [Nat.mul_comm]; omega
        · have : (a / b + 1) * b = b * (a / b) + b := by ring
          omega
      rw [this, Nat.mul_comm]; omega
    · simp only [hm, if_false]
      have : ¬ (b < a % b) := by omega
      simp only [this, if_false]
      congr 1
      have : (a + b - 1) / b = a / b + 1 := by
        apply Nat.div_eq_of_lt_le
        · have : (a / b + 1) * b = b * (a / b) + b := by ring
          omega
        · have : (a / b + 1 + 1) * b = b * (a / b) + b + b := by ring
          omega
      rw [this]
      have : (a / b + 1) * b = b * (a / b) + b := by ring
      omega

/-- characterisation: the result is the least multiple of `b` that is `≥ a` -/
theorem next_multiple_char (a b : Nat) (hb : b ≠ 0) :
    b ∣ (a + b - 1) / b * b ∧ a ≤ (a + b - 1) / b * b ∧ (a + b - 1) / b * b < a + b := by
  refine ⟨Nat.dvd_mul_left _ _, ?_, ?_⟩
  · have := Nat.div_add_mod (a + b - 1) b
    have := Nat.mod_lt (a + b - 1) (show b > 0 by omega)
    rw [Nat.mul_comm]; omega
  · have := Nat.div_mul_le_self (a + b - 1) b
    omega

/-- `BigUint::prev_multiple_of`: panics iff `b = 0` (and never underflows); otherwise the greatest multiple `≤ a` -/
theorem prev_multiple_spec (a b : Nat) :
    prevMultipleOf a b = if b = 0 then .error .divzero else .ok (a / b * b) := by
  unfold prevMultipleOf umod usub
  by_cases hb : b = 0
  · simp [hb]
  · simp only [hb, if_false]
    have hle := Nat.mod_le a b
    have hdm := Nat.div_add_mod a b
    have : ¬ (a < a % b) := by omega
    simp only [this, if_false]
    congr 1
    rw [Nat.mul_comm]; omega

theorem prev_multiple_char (a b : Nat) (hb : b ≠ 0) : b ∣ a / b * b ∧ a / b * b ≤ a ∧ a < a / b * b + b := by
  refine ⟨Nat.dvd_mul_left _ _, Nat.div_mul_le_self a b, ?_⟩
  have := Nat.div_add_mod a b
  have := Nat.mod_lt a (show b > 0 by omega)
  rw [Nat.mul_comm]; omega

/-- `BigInt::mod_floor` (as coded: magnitude remainder, sign table, `other - m`) is `Int.fmod` -/
theorem bigint_mod_floor_spec (a b : Int) :
    bigintModFloor a b = if b = 0 then .error .divzero else .ok (Int.fmod a b) := by
  by_cases hb : b = 0
  · subst hb; rw [if_pos rfl]; exact bigintModFloor_zero a
  · rw [if_neg hb]; exact bigintModFloor_ok a hb

/-- `BigInt::next_multiple_of` as coded: `a + ((-a) fmod b)` — the nearest multiple of `b` at or above
    `a` for `b > 0`, at or below `a` for `b < 0`; panics iff `b = 0` -/
theorem bigint_next_multiple_spec (a b : Int) :
    bigintNextMultipleOf a b = if b = 0 then .error .divzero else .ok (a + Int.fmod (-a) b) := by
  unfold bigintNextMultipleOf
  rw [bigint_mod_floor_spec]
  by_cases hb : b = 0
  · simp [hb]
  · simp only [hb, if_false]
    rw [fmod_neg_left a hb]
    by_cases h0 : Int.fmod a b = 0
    · simp [h0]
    · simp [h0]

theorem bigint_next_multiple_char (a b : Int) (hb : b ≠ 0) :
    b ∣ a + Int.fmod (-a) b ∧ (0 < b → a ≤ a + Int.fmod (-a) b ∧ a + Int.fmod (-a) b < a + b) ∧
    (b < 0 → a + b < a + Int.fmod (-a) b ∧ a + Int.fmod (-a) b ≤ a) := by
  obtain ⟨h1, h2, h3⟩ := fmod_decomp (-a) hb
  refine ⟨⟨- Int.fdiv (-a) b, ?_⟩, fun h => by have := h2 h; omega, fun h => by have := h3 h; omega⟩
  generalize Int.fmod (-a) b = m at *
  generalize Int.fdiv (-a) b = q at *
  linarith

/-- `BigInt::prev_multiple_of` as coded: `a - (a fmod b)`; panics iff `b = 0` -/
theorem bigint_prev_multiple_spec (a b : Int) :
    bigintPrevMultipleOf a b = if b = 0 then .error .divzero else .ok (a - Int.fmod a b) := by
  unfold bigintPrevMultipleOf
  rw [bigint_mod_floor_spec]
  by_cases hb : b = 0
  · simp [hb]
  · simp [hb]

theorem bigint_prev_multiple_char (a b : Int) (hb : b ≠ 0) :
    b ∣ a - Int.fmod a b ∧ (0 < b → a - b < a - Int.fmod a b ∧ a - Int.fmod a b ≤ a) ∧
    (b < 0 → a ≤ a - Int.fmod a b ∧ a - Int.fmod a b < a - b) := by
  obtain ⟨h1, h2, h3⟩ := fmod_decomp a hb
  refine ⟨⟨Int.fdiv a b, ?_⟩, fun h => by have := h2 h; omega, fun h => by have := h3 h; omega⟩
  generalize Int.fmod a b = m at *
  generalize Int.fdiv a b = q at *
  linarith

/-! ### parity, inc, dec -/

/-- `is_even` (first digit only) is the parity of the value -/
theorem is_even_spec (ds : List Nat) : isEven ds = decide (val ds % 2 = 0) := isEven_ok ds

theorem is_odd_spec (ds : List Nat) : isOdd ds = decide (val ds % 2 = 1) := by
  unfold isOdd
  rw [isEven_ok]
  by_cases h : val ds % 2 = 0
  · simp [h]
  · have : val ds % 2 = 1 := by omega
    simp [this]

theorem inc_spec (a : Nat) : inc a = .ok (a + 1) := rfl

/-- `dec` on BigUint zero is the subtraction-underflow panic -/
theorem dec_spec (a : Nat) : dec a = if a = 0 then .error .underflow else .ok (a - 1) := by
  unfold dec usub
  by_cases h : a = 0
  · simp [h]
  · have : ¬ a < 1 := by omega
    simp [h, this]

theorem bigint_inc_dec_spec (a : Int) : bigintInc a = .ok (a + 1) ∧ bigintDec a = .ok (a - 1) := ⟨rfl, rfl⟩

/-! ### non-vacuity / concrete evaluations of the model -/

example : gcd 48 180 = .ok 12 := by decide
example : gcd (3 * 2 ^ 70) (5 * 2 ^ 67) = .ok (2 ^ 67) := by decide
example : extendedGcd 240 (-46) = .ok (2, -9, -47) := by decide
example : (240 : Int) * (-9) + (-46) * (-47) = 2 := by decide
example : bigintNextMultipleOf 23 (-8) = .ok 16 := by decide
example : bigintModFloor (-7) 3 = .ok 2 := by decide

/-! ## Digit-level layer (NB.Model.GcdD; this is what the driver's model column runs)

  `GcdD.*` mirrors the Rust functions on digit vectors / BigInt records with the digit-level operator
  models (`trailingZerosU`, `biguintShr/Shl`, `cmpSlice`, `subAssign`, `divRef`, `mulRef`, `remRef`,
  `modFloor`, `subRefVal`, `addAssign`, `addAssignU32/subAssignU32`, `BigInt.div/sub/add/modFloor/addU/subU`,
  `bigintMul`, `Core.BigInt.cmp`) and propagates their panics.  The `…D_refines` theorems say that on
  canonical inputs it computes exactly what the value-level model computes on the values (outcome
  for outcome, including every panic), so the specifications above transfer (`…D_spec`).

  Hypotheses that are not "operands canonical":
  * `GcdD.Small a` (`a.length < usize range`, true of every `Vec`): only where `>>`/`<<` are used
    (the gcd family), because `biguint_shr` saturates and `biguint_shl` panics beyond `usize::MAX` digits;
  * `P.ValidMul` (obligation `gen_params_valid_mul`, C02): only where a `*` is used. -/

/-- trailing zeros on the digits = the 2-adic valuation used by the value-level model -/
theorem twosD_spec (a : List Nat) (ha : Canon a) : GcdD.twos a = twos (val a) := GcdD.twos_eq ha.1

/-- the digit-level Stein loop refines the value-level loop step for step, for every fuel -/
theorem steinLoopD_refines (P : Params) (fuel : Nat) (m n : List Nat) (hm : Canon m) (hn : Canon n)
    (hsm : GcdD.Small m) (hsn : GcdD.Small n) :
    GcdD.steinLoop P fuel m n = (steinLoop fuel (val m) (val n)).map ofNat := by
  obtain ⟨x, rfl⟩ : ∃ x, m = ofNat x := ⟨_, canon_eq_ofNat hm⟩
  obtain ⟨y, rfl⟩ : ∃ y, n = ofNat y := ⟨_, canon_eq_ofNat hn⟩
  simp only [ofNat_val]
  exact GcdD.steinLoop_refines P fuel x y hsm hsn

theorem gcdD_refines (P : Params) (a b : List Nat) (ha : Canon a) (hb : Canon b)
    (hsa : GcdD.Small a) (hsb : GcdD.Small b) :
    GcdD.gcd P a b = (gcd (val a) (val b)).map ofNat := GcdD.gcd_refines P a b ha hb hsa hsb

/-- digit-level `BigUint::gcd`: the canonical digits of `Nat.gcd`; no operator panics, the loop terminates -/
theorem gcdD_spec (P : Params) (a b : List Nat) (ha : Canon a) (hb : Canon b)
    (hsa : GcdD.Small a) (hsb : GcdD.Small b) :
    GcdD.gcd P a b = .ok (ofNat (Nat.gcd (val a) (val b))) := by
  rw [gcdD_refines P a b ha hb hsa hsb, gcd_ok]; rfl

theorem lcmD_refines (P : Params) (hP : P.ValidMul) (a b : List Nat) (ha : Canon a) (hb : Canon b)
    (hsa : GcdD.Small a) (hsb : GcdD.Small b) :
    GcdD.lcm P a b = (lcm (val a) (val b)).map ofNat := by
  obtain ⟨x, rfl⟩ : ∃ x, a = ofNat x := ⟨_, canon_eq_ofNat ha⟩
  obtain ⟨y, rfl⟩ : ∃ y, b = ofNat y := ⟨_, canon_eq_ofNat hb⟩
  simp only [ofNat_val]
  exact GcdD.lcm_ofNat P hP x y hsa hsb

/-- digit-level `BigUint::lcm`: the canonical digits of `Nat.lcm` -/
theorem lcmD_spec (P : Params) (hP : P.ValidMul) (a b : List Nat) (ha : Canon a) (hb : Canon b)
    (hsa : GcdD.Small a) (hsb : GcdD.Small b) :
    GcdD.lcm P a b = .ok (ofNat (Nat.lcm (val a) (val b))) := by
  rw [lcmD_refines P hP a b ha hb hsa hsb, lcm_ok]; rfl

theorem gcdLcmD_spec (P : Params) (hP : P.ValidMul) (a b : List Nat) (ha : Canon a) (hb : Canon b)
    (hsa : GcdD.Small a) (hsb : GcdD.Small b) :
    GcdD.gcdLcm P a b = .ok (ofNat (Nat.gcd (val a) (val b)), ofNat (Nat.lcm (val a) (val b))) := by
  obtain ⟨x, rfl⟩ : ∃ x, a = ofNat x := ⟨_, canon_eq_ofNat ha⟩
  obtain ⟨y, rfl⟩ : ∃ y, b = ofNat y := ⟨_, canon_eq_ofNat hb⟩
  simp only [ofNat_val]
  rw [GcdD.gcdLcm_ofNat P hP x y hsa hsb, gcdLcm_ok]; rfl

/-- digit-level `is_multiple_of` (through `%` with its `to_u32` fast path) is divisibility -/
theorem is_multiple_ofD_spec (P : Params) (a b : List Nat) (ha : Canon a) (hb : Canon b) :
    GcdD.isMultipleOf P a b = .ok (decide (val b ∣ val a)) := by
  obtain ⟨x, rfl⟩ : ∃ x, a = ofNat x := ⟨_, canon_eq_ofNat ha⟩
  obtain ⟨y, rfl⟩ : ∃ y, b = ofNat y := ⟨_, canon_eq_ofNat hb⟩
  simp only [ofNat_val]
  rw [GcdD.isMultipleOf_ofNat, isMultipleOf_ok]

theorem next_multipleD_refines (P : Params) (a b : List Nat) (ha : Canon a) (hb : Canon b) :
    GcdD.nextMultipleOf P a b = (nextMultipleOf (val a) (val b)).map ofNat := by
  obtain ⟨x, rfl⟩ : ∃ x, a = ofNat x := ⟨_, canon_eq_ofNat ha⟩
  obtain ⟨y, rfl⟩ : ∃ y, b = ofNat y := ⟨_, canon_eq_ofNat hb⟩
  simp only [ofNat_val]
  exact GcdD.nextMultipleOf_ofNat P x y

/-- digit-level `next_multiple_of`: division-by-zero panic iff `b = 0`, else the least multiple `≥ a` -/
theorem next_multipleD_spec (P : Params) (a b : List Nat) (ha : Canon a) (hb : Canon b) :
    GcdD.nextMultipleOf P a b =
      if val b = 0 then .error .divzero else .ok (ofNat ((val a + val b - 1) / val b * val b)) := by
  rw [next_multipleD_refines P a b ha hb, next_multiple_spec]
  split <;> rfl

theorem prev_multipleD_refines (P : Params) (a b : List Nat) (ha : Canon a) (hb : Canon b) :
    GcdD.prevMultipleOf P a b = (prevMultipleOf (val a) (val b)).map ofNat := by
  obtain ⟨x, rfl⟩ : ∃ x, a = ofNat x := ⟨_, canon_eq_ofNat ha⟩
  obtain ⟨y, rfl⟩ : ∃ y, b = ofNat y := ⟨_, canon_eq_ofNat hb⟩
  simp only [ofNat_val]
  exact GcdD.prevMultipleOf_ofNat P x y

theorem prev_multipleD_spec (P : Params) (a b : List Nat) (ha : Canon a) (hb : Canon b) :
    GcdD.prevMultipleOf P a b =
      if val b = 0 then .error .divzero else .ok (ofNat (val a / val b * val b)) := by
  rw [prev_multipleD_refines P a b ha hb, prev_multiple_spec]
  split <;> rfl

theorem incD_spec (P : Params) (a : List Nat) (ha : Canon a) : GcdD.inc P a = .ok (ofNat (val a + 1)) := by
  obtain ⟨x, rfl⟩ : ∃ x, a = ofNat x := ⟨_, canon_eq_ofNat ha⟩
  simp only [ofNat_val]
  rw [GcdD.inc_ofNat]; rfl

theorem decD_spec (P : Params) (a : List Nat) (ha : Canon a) :
    GcdD.dec P a = if val a = 0 then .error .underflow else .ok (ofNat (val a - 1)) := by
  obtain ⟨x, rfl⟩ : ∃ x, a = ofNat x := ⟨_, canon_eq_ofNat ha⟩
  simp only [ofNat_val]
  rw [GcdD.dec_ofNat, dec_spec]
  split <;> rfl

/-! ### digit-level BigInt -/

theorem bigint_gcdD_spec (P : Params) (a b : BigInt) (ha : a.Canon) (hb : b.Canon)
    (hsa : GcdD.Small a.mag) (hsb : GcdD.Small b.mag) :
    GcdD.bigintGcd P a b = .ok (BigInt.ofInt (Int.gcd a.val b.val : Int)) := by
  obtain ⟨i, rfl⟩ : ∃ i, a = BigInt.ofInt i := ⟨_, bigint_canon_eq_ofInt ha⟩
  obtain ⟨j, rfl⟩ : ∃ j, b = BigInt.ofInt j := ⟨_, bigint_canon_eq_ofInt hb⟩
  rw [ofInt_mag] at hsa hsb
  simp only [bigint_ofInt_val]
  rw [GcdD.bigintGcd_ofInt P i j hsa hsb, bigint_gcd_spec]; rfl

theorem bigint_lcmD_spec (P : Params) (hP : P.ValidMul) (a b : BigInt) (ha : a.Canon) (hb : b.Canon)
    (hsa : GcdD.Small a.mag) (hsb : GcdD.Small b.mag) :
    GcdD.bigintLcm P a b = .ok (BigInt.ofInt (Int.lcm a.val b.val : Int)) := by
  obtain ⟨i, rfl⟩ : ∃ i, a = BigInt.ofInt i := ⟨_, bigint_canon_eq_ofInt ha⟩
  obtain ⟨j, rfl⟩ : ∃ j, b = BigInt.ofInt j := ⟨_, bigint_canon_eq_ofInt hb⟩
  rw [ofInt_mag] at hsa hsb
  simp only [bigint_ofInt_val]
  rw [GcdD.bigintLcm_ofInt P hP i j hsa hsb, bigint_lcm_spec]; rfl

theorem bigint_gcd_lcmD_spec (P : Params) (hP : P.ValidMul) (a b : BigInt) (ha : a.Canon) (hb : b.Canon)
    (hsa : GcdD.Small a.mag) (hsb : GcdD.Small b.mag) :
    GcdD.bigintGcdLcm P a b =
      .ok (BigInt.ofInt (Int.gcd a.val b.val : Int), BigInt.ofInt (Int.lcm a.val b.val : Int)) := by
  obtain ⟨i, rfl⟩ : ∃ i, a = BigInt.ofInt i := ⟨_, bigint_canon_eq_ofInt ha⟩
  obtain ⟨j, rfl⟩ : ∃ j, b = BigInt.ofInt j := ⟨_, bigint_canon_eq_ofInt hb⟩
  rw [ofInt_mag] at hsa hsb
  simp only [bigint_ofInt_val]
  rw [GcdD.bigintGcdLcm_ofInt P hP i j hsa hsb, bigint_gcd_lcm_spec]; rfl

/-- the digit-level Euclid loop (BigInt `/ * -` through `BigInt.div`, `bigintMul`, `BigInt.sub`) refines
    the value-level loop for every fuel and every state -/
theorem egcdLoopD_refines (P : Params) (hP : P.ValidMul) (fuel : Nat) (s0 s1 t0 t1 r0 r1 : BigInt)
    (h1 : s0.Canon) (h2 : s1.Canon) (h3 : t0.Canon) (h4 : t1.Canon) (h5 : r0.Canon) (h6 : r1.Canon) :
    GcdD.egcdLoop P fuel s0 s1 t0 t1 r0 r1 =
      (egcdLoop fuel s0.val s1.val t0.val t1.val r0.val r1.val).map GcdD.ofInt3 := by
  have e := GcdD.egcdLoop_refines P hP fuel s0.val s1.val t0.val t1.val r0.val r1.val
  rwa [← bigint_canon_eq_ofInt h1, ← bigint_canon_eq_ofInt h2, ← bigint_canon_eq_ofInt h3,
    ← bigint_canon_eq_ofInt h4, ← bigint_canon_eq_ofInt h5, ← bigint_canon_eq_ofInt h6] at e

theorem egcdD_refines (P : Params) (hP : P.ValidMul) (a b : BigInt) (ha : a.Canon) (hb : b.Canon) :
    GcdD.extendedGcd P a b = (extendedGcd a.val b.val).map GcdD.ofInt3 := by
  have e := GcdD.extendedGcd_ofInt P hP a.val b.val
  rwa [← bigint_canon_eq_ofInt ha, ← bigint_canon_eq_ofInt hb] at e

/-- digit-level `extended_gcd` on BigInt: canonical `(g, x, y)` with `a·x + b·y = g = gcd(a, b) ≥ 0`;
    no operator panics (in particular no division by zero), the loop terminates -/
theorem egcdD_spec (P : Params) (hP : P.ValidMul) (a b : BigInt) (ha : a.Canon) (hb : b.Canon) :
    ∃ g x y, GcdD.extendedGcd P a b = .ok (g, x, y) ∧ g.Canon ∧ x.Canon ∧ y.Canon ∧
      a.val * x.val + b.val * y.val = g.val ∧ g.val = (Int.gcd a.val b.val : Int) := by
  obtain ⟨g, x, y, e, h1, h2⟩ := egcd_spec a.val b.val
  refine ⟨BigInt.ofInt g, BigInt.ofInt x, BigInt.ofInt y, ?_, bigint_ofInt_canon _, bigint_ofInt_canon _,
    bigint_ofInt_canon _, ?_, ?_⟩
  · rw [egcdD_refines P hP a b ha hb, e]; rfl
  · simp only [bigint_ofInt_val]; exact h1
  · simp only [bigint_ofInt_val]; exact h2

/-- digit-level `extended_gcd_lcm` -/
theorem egcd_lcmD_spec (P : Params) (hP : P.ValidMul) (a b : BigInt) (ha : a.Canon) (hb : b.Canon) :
    ∃ g x y l, GcdD.extendedGcdLcm P a b = .ok ((g, x, y), l) ∧ g.Canon ∧ x.Canon ∧ y.Canon ∧
      a.val * x.val + b.val * y.val = g.val ∧ g.val = (Int.gcd a.val b.val : Int) ∧
      l = BigInt.ofInt (Int.lcm a.val b.val : Int) := by
  obtain ⟨g, x, y, l, e, h1, h2, h3⟩ := egcd_lcm_spec a.val b.val
  refine ⟨BigInt.ofInt g, BigInt.ofInt x, BigInt.ofInt y, BigInt.ofInt l, ?_, bigint_ofInt_canon _,
    bigint_ofInt_canon _, bigint_ofInt_canon _, ?_, ?_, ?_⟩
  · have r := GcdD.extendedGcdLcm_ofInt P hP a.val b.val
    rw [← bigint_canon_eq_ofInt ha, ← bigint_canon_eq_ofInt hb] at r
    rw [r, e]; rfl
  · simp only [bigint_ofInt_val]; exact h1
  · simp only [bigint_ofInt_val]; exact h2
  · rw [h3]

theorem bigint_is_multiple_ofD_spec (P : Params) (a b : BigInt) (ha : a.Canon) (hb : b.Canon) :
    GcdD.bigintIsMultipleOf P a b = .ok (decide (b.val ∣ a.val)) := by
  have r := GcdD.bigintIsMultipleOf_ofInt P a.val b.val
  rw [← bigint_canon_eq_ofInt ha, ← bigint_canon_eq_ofInt hb] at r
  rw [r, bigint_is_multiple_of_spec]

/-- digit-level `BigInt::next_multiple_of` (`mod_floor`, `other - m`, `self + …` on BigInt records) -/
theorem bigint_next_multipleD_spec (P : Params) (a b : BigInt) (ha : a.Canon) (hb : b.Canon) :
    GcdD.bigintNextMultipleOf P a b =
      if b.val = 0 then .error .divzero else .ok (BigInt.ofInt (a.val + Int.fmod (-a.val) b.val)) := by
  have r := GcdD.bigintNextMultipleOf_ofInt P a.val b.val
  rw [← bigint_canon_eq_ofInt ha, ← bigint_canon_eq_ofInt hb] at r
  rw [r, bigint_next_multiple_spec]
  split <;> rfl

theorem bigint_prev_multipleD_spec (P : Params) (a b : BigInt) (ha : a.Canon) (hb : b.Canon) :
    GcdD.bigintPrevMultipleOf P a b =
      if b.val = 0 then .error .divzero else .ok (BigInt.ofInt (a.val - Int.fmod a.val b.val)) := by
  have r := GcdD.bigintPrevMultipleOf_ofInt P a.val b.val
  rw [← bigint_canon_eq_ofInt ha, ← bigint_canon_eq_ofInt hb] at r
  rw [r, bigint_prev_multiple_spec]
  split <;> rfl

theorem bigint_inc_decD_spec (P : Params) (a : BigInt) (ha : a.Canon) :
    GcdD.bigintInc P a = .ok (BigInt.ofInt (a.val + 1)) ∧ GcdD.bigintDec P a = .ok (BigInt.ofInt (a.val - 1)) := by
  have r1 := GcdD.bigintInc_ofInt P a.val
  have r2 := GcdD.bigintDec_ofInt P a.val
  rw [← bigint_canon_eq_ofInt ha] at r1 r2
  rw [r1, r2]
  exact ⟨rfl, rfl⟩

/-- instantiations at the parameters regenerated from the source on every run -/
theorem lcmD_spec_gen (a b : List Nat) (ha : Canon a) (hb : Canon b) (hsa : GcdD.Small a) (hsb : GcdD.Small b) :
    GcdD.lcm NB.Gen.P a b = .ok (ofNat (Nat.lcm (val a) (val b))) :=
  lcmD_spec NB.Gen.P gen_params_valid_mul a b ha hb hsa hsb

theorem egcdD_spec_gen (a b : BigInt) (ha : a.Canon) (hb : b.Canon) :
    ∃ g x y, GcdD.extendedGcd NB.Gen.P a b = .ok (g, x, y) ∧ g.Canon ∧ x.Canon ∧ y.Canon ∧
      a.val * x.val + b.val * y.val = g.val ∧ g.val = (Int.gcd a.val b.val : Int) :=
  egcdD_spec NB.Gen.P gen_params_valid_mul a b ha hb

/-- every operand the driver hands to the digit-level model is canonical (it normalises exactly like the
    harness's constructors `BigUint::new` / `BigInt::from_biguint`), so the `…D_spec` theorems apply to
    every evaluation of the driver's model column -/
theorem drv_operand_canon_c13 (s : String) (a : List Nat) (h : NB.Drv.C13.pU s = some a) : Canon a := by
  unfold NB.Drv.C13.pU at h
  cases hp : NB.Wire.parseLimbs s with
  | none => simp [hp] at h
  | some l =>
    simp only [hp, Option.bind_eq_bind, Option.bind_some] at h
    split at h
    · rename_i hall
      simp only [Option.pure_def, Option.some.injEq] at h
      subst h
      exact normalize_canon (fun d hd => by simpa using List.all_eq_true.mp hall d hd)
    · simp at h

theorem drv_operand_canon_i_c13 (s : String) (x : BigInt) (h : NB.Drv.C13.pI s = some x) : x.Canon := by
  unfold NB.Drv.C13.pI at h
  cases hp : NB.Wire.parseBigInt s with
  | none => simp [hp] at h
  | some y =>
    simp only [hp, Option.bind_eq_bind, Option.bind_some] at h
    split at h
    · rename_i hall
      simp only [Option.pure_def, Option.some.injEq] at h
      subst h
      have hc : Canon (normalize y.mag) :=
        normalize_canon (fun d hd => by simpa using List.all_eq_true.mp hall d hd)
      unfold BigInt.fromBiguint
      by_cases h1 : y.sign = .nosign
      · simp only [h1, if_true]; exact ⟨canon_nil, by simp⟩
      · simp only [h1, if_false]
        by_cases h2 : normalize y.mag = []
        · simp only [h2, if_true]; exact ⟨canon_nil, by simp⟩
        · simp only [h2, if_false]; exact ⟨hc, by simp [h1, h2]⟩
    · simp at h

/-! ### non-vacuity of the digit-level layer: concrete evaluations at the generated parameters -/

example : GcdD.Small [0, 0, 3] ∧ Canon [0, 0, 3] := by
  unfold GcdD.Small; decide
example : GcdD.gcd NB.Gen.P [0, 12] [0, 0, 18] = .ok [0, 12] := by decide
example : GcdD.gcd NB.Gen.P [6, 12] [0, 9] = .ok [18] := by decide
example : GcdD.lcm NB.Gen.P [4] [6] = .ok [12] := by decide
example : GcdD.extendedGcd NB.Gen.P ⟨.plus, [240]⟩ ⟨.minus, [46]⟩ = .ok (⟨.plus, [2]⟩, ⟨.minus, [9]⟩, ⟨.minus, [47]⟩) := by
  decide
example : GcdD.bigintNextMultipleOf NB.Gen.P ⟨.plus, [23]⟩ ⟨.minus, [8]⟩ = .ok ⟨.plus, [16]⟩ := by decide
example : GcdD.dec NB.Gen.P [] = .error .underflow := by decide

end NB
