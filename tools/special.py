"""Property-specific extra steps called by tools/check.py (cfg["special"])."""
import os, subprocess, time

def _valgrind(binp, lines, timeout=1500):
    p = subprocess.run(["valgrind", "--quiet", "--error-exitcode=97", "--leak-check=no", binp],
                       input="\n".join(lines) + "\n", stdout=subprocess.PIPE, stderr=subprocess.PIPE, text=True, timeout=timeout)
    return p.returncode, p.stderr

def c15_special(ctx):
    """replay the C15 requests under valgrind memcheck: any invalid read/write is a violation"""
    out = {"coverage": {}, "violations": [], "errors": [], "notes": []}
    binp = ctx["bins"].get("release")
    lines = ctx["lines"]
    if not binp or not lines:
        out["errors"].append("C15: no harness binary or no requests for the memcheck run")
        return out
    t0 = time.time()
    rc, err = _valgrind(binp, lines)
    out["coverage"]["memcheck_requests"] = len(lines)
    out["coverage"]["memcheck_rc"] = rc
    if rc == 97 or rc < 0:
        # bisect to a single request
        cur = lines
        while len(cur) > 1:
            half = cur[: len(cur) // 2]
            r1, e1 = _valgrind(binp, half)
            if r1 == 97 or r1 < 0:
                cur, err = half, e1
            else:
                rest = cur[len(cur) // 2:]
                r2, e2 = _valgrind(binp, rest)
                if r2 == 97 or r2 < 0:
                    cur, err = rest, e2
                else:
                    break  # only fails in combination: keep the current set
        req = cur[0] if len(cur) == 1 else None
        path = ctx["write_replay"](ctx["pid"], {"property": ctx["pid"], "kind": "memcheck", "request": req,
                                                "requests": None if req else cur[:50],
                                                "valgrind": err[-1500:],
                                                "explanation": "valgrind memcheck reports an invalid memory access while the real crate executes this request"})
        out["violations"].append((path, ""))
    elif rc != 0:
        out["errors"].append("valgrind run failed rc=%s: %s" % (rc, err[-300:]))
    out["coverage"]["memcheck_s"] = round(time.time() - t0, 1)
    return out


# ---------------------------------------------------------------------------------------------
# C16: feature configurations

def feature_table(repo="/repo"):
    """feature sets the way ci/test_full.sh enumerates them, derived from Cargo.toml + the CI script"""
    import itertools, re
    toml = open(os.path.join(repo, "Cargo.toml")).read()
    m = re.search(r"\[features\](.*?)\n\[", toml, re.S)
    feats = re.findall(r"^(\w+)\s*=", m.group(1), re.M) if m else []
    feats = [f for f in feats if f not in ("default", "std")]
    std_feats = sorted(feats)
    no_std_feats = ["rand", "serde"]
    try:
        ci = open(os.path.join(repo, "ci", "test_full.sh")).read()
        m1 = re.search(r"STD_FEATURES=\(([^)]*)\)", ci)
        m2 = re.search(r"NO_STD_FEATURES=\(([^)]*)\)", ci)
        if m1:
            std_feats = sorted(m1.group(1).split())
        if m2:
            no_std_feats = sorted(m2.group(1).split())
    except OSError:
        pass
    cfgs = []
    for r in range(len(std_feats) + 1):
        for c in itertools.combinations(std_feats, r):
            cfgs.append(("std",) + c)
    for r in range(len(no_std_feats) + 1):
        for c in itertools.combinations(no_std_feats, r):
            cfgs.append(tuple(c))
    return cfgs

def c16_special(ctx):
    """(1) cargo check of /repo in every documented feature configuration;
       (2) the same deterministic request transcript through harness builds with/without std and
           with/without the optional features, debug and release, compared byte for byte"""
    out = {"coverage": {}, "violations": [], "errors": [], "notes": []}
    verif, sh = ctx["verif"], ctx["sh"]
    t0 = time.time()
    cfgs = feature_table()
    failed, built = [], 0
    tdir = os.path.join(verif, "build", "c16")
    for c in cfgs:
        for prof in (["dev"] if ctx["tier"] == "quick" else ["dev", "release"]):
            cmd = ["cargo", "check", "--offline", "--manifest-path", "/repo/Cargo.toml", "--target-dir", tdir,
                   "--no-default-features", "--features", " ".join(c)]
            if prof == "release":
                cmd.append("--release")
            rc, log = sh(cmd, timeout=1200)
            built += 1
            if rc != 0:
                failed.append((c, prof, cmd, log[-1200:]))
    out["coverage"]["feature_configs"] = [" ".join(c) or "(none)" for c in cfgs]
    out["coverage"]["config_builds"] = built
    out["coverage"]["config_build_failures"] = len(failed)
    for (c, prof, cmd, log) in failed[:3]:
        path = ctx["write_replay"](ctx["pid"], {"property": ctx["pid"], "kind": "config-does-not-build",
                                                "features": list(c), "profile": prof, "command": " ".join(cmd), "log": log})
        out["violations"].append((path, ""))
    # transcripts
    lines = ctx["lines"]
    hcfgs = [("std rand serde", "release"), ("", "release"), ("std", "release"), ("rand serde", "release"),
             ("std rand serde", "debug"), ("", "debug")]
    if ctx["tier"] == "quick":
        hcfgs = [hcfgs[0], hcfgs[1], hcfgs[4], hcfgs[5]]
    outs = {}
    for feats, prof in hcfgs:
        name = (feats.replace(" ", "+") or "nostd") + "-" + prof
        env = {"CARGO_TARGET_DIR": os.path.join(verif, "build", "cargo-cfg-" + (feats.replace(" ", "_") or "nostd"))}
        cmd = ["cargo", "build", "--offline", "--no-default-features", "--features", feats]
        if prof == "release":
            cmd.append("--release")
        rc, log = sh(cmd, cwd=os.path.join(verif, "harness"), timeout=1800, env=env)
        if rc != 0:
            if not failed:
                path = ctx["write_replay"](ctx["pid"], {"property": ctx["pid"], "kind": "config-does-not-build",
                                                        "features": feats.split(), "profile": prof, "command": " ".join(cmd),
                                                        "log": log[-1200:]})
                out["violations"].append((path, ""))
            continue
        binp = os.path.join(env["CARGO_TARGET_DIR"], "release" if prof == "release" else "debug", "nbharness")
        outs[name] = ctx["run_harness"](binp, lines)
    out["coverage"]["transcript_configs"] = sorted(outs)
    out["coverage"]["transcript_lines"] = len(lines)
    names = sorted(outs)
    diffs = 0
    if names:
        ref = outs[names[0]]
        for n in names[1:]:
            for i, (a, b) in enumerate(zip(ref, outs[n])):
                if a != b and "unsupported" not in (a, b):
                    diffs += 1
                    if diffs <= 3:
                        path = ctx["write_replay"](ctx["pid"], {"property": ctx["pid"], "kind": "config-divergence",
                                                                "request": lines[i], "configs": [names[0], n],
                                                                "results": [a, b]})
                        out["violations"].append((path, ""))
    out["coverage"]["transcript_divergences"] = diffs
    out["coverage"]["c16_s"] = round(time.time() - t0, 1)
    return out


# ---------------------------------------------------------------------------------------------
# shared: run a property's own stream through a harness built WITHOUT num-bigint's `std` feature

def nostd_special(ctx):
    """feature-conditional code (`cfg(not(feature = "std"))` blocks) must give byte-identical answers:
    build the harness with --no-default-features (features rand+serde kept so the same streams exist)
    and compare its answers on this property's requests with the std build's"""
    out = {"coverage": {}, "violations": [], "errors": [], "notes": []}
    std_bin = ctx["bins"].get("release")
    lines = ctx.get("lines") or []
    if not std_bin or not lines:
        return out
    verif = ctx["verif"]
    tdir = os.path.join(verif, "build", "cargo-cfg-rand_serde")
    rc, log = ctx["sh"](["cargo", "build", "--offline", "--release", "--no-default-features", "--features", "rand serde"],
                        cwd=os.path.join(verif, "harness"), timeout=1800, env={"CARGO_TARGET_DIR": tdir})
    if rc != 0:
        out["notes"].append("no_std harness build failed (C16's subject); config run skipped: " + log[-200:])
        out["coverage"]["nostd_build"] = False
        return out
    nostd_bin = os.path.join(tdir, "release", "nbharness")
    a = [r.split(" # ")[0] if r else r for r in ctx["run_harness"](std_bin, lines)]
    b = [r.split(" # ")[0] if r else r for r in ctx["run_harness"](nostd_bin, lines)]
    diffs = [(l, x, y) for l, x, y in zip(lines, a, b) if x != y and "unsupported" not in (x, y)]
    out["coverage"]["nostd_requests"] = len(lines)
    out["coverage"]["nostd_divergences"] = len(diffs)
    for (l, x, y) in sorted(diffs, key=lambda d: len(d[0]))[:3]:
        path = ctx["write_replay"](ctx["pid"], {"property": ctx["pid"], "kind": "config-dependence", "request": l,
                                                "impl_std": x, "impl_nostd": y,
                                                "explanation": "the same request gives different answers with and without num-bigint's `std` feature"})
        out["violations"].append((path, ""))
    return out

def compose(*steps):
    def run(ctx):
        tot = {"coverage": {}, "violations": [], "errors": [], "notes": [], "known_hits": []}
        for s in steps:
            r = s(ctx)
            tot["coverage"].update(r.get("coverage", {}))
            for k in ("violations", "errors", "notes", "known_hits"):
                tot[k] += r.get(k, [])
        return tot
    return run
